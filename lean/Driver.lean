import CDV
/-! Line-protocol driver: one operation per input line, one result line per operation.
    Imports the executable model only (no Mathlib), so it links as a `lean_exe`. -/
open CDV

def sSArg : Spec.SArg → String
  | .raw n => s!"r{n}"
  | .jump (some i) r => s!"J{i}:{if r then 1 else 0}"
  | .jump none r => s!"J?:{if r then 1 else 0}"
  | .name s => "n" ++ sStr s
  | .loc s => "v" ++ sStr s
  | .cell s => "ce" ++ sStr s
  | .free s => "fr" ++ sStr s
  | .constInner c => "k" ++ (sInner c).replace " " "_"
  | .constCode _ => "kCODE"
  | .noarg => "na"
  | .bad => "BAD"

def sSInstr (i : Spec.SInstr) : String := s!"{i.op},{sSArg i.arg},{sOpt toString i.line}"

structure Env where
  tables : List (String × OpTable) := []
  flags : List (String × FlagTable) := []

def verOf : String → Option Ver
  | "v37" => some .v37 | "v38" => some .v38 | "v39" => some .v39 | "v310" => some .v310 | _ => none

def clsOf : Char → OpClass
  | 'a' => .jabs | 'r' => .jrel | 'n' => .name | 'l' => .loc | 'f' => .free | 'c' => .const
  | '0' => .noarg | 'e' => .ext | _ => .raw

def showR {α} (f : α → String) : R α → String
  | .ok a => "OK " ++ f a
  | .error .raised => "ERR"
  | .error .unmodelled => "UNMODELLED"
  | .error .fuel => "FUEL"

def lookup {β} (k : String) : List (String × β) → Option β
  | [] => none
  | (k', v) :: r => if k == k' then some v else lookup k r

def sKind : Kind → String
  | .posOnly => "POSITIONAL_ONLY" | .posOrKw => "POSITIONAL_OR_KEYWORD" | .varPos => "VAR_POSITIONAL"
  | .kwOnly => "KEYWORD_ONLY" | .varKw => "VAR_KEYWORD"

def sLMap (m : LT.LMap) : String :=
  sList (fun (o, l) => s!"{o}:{sOpt toString l}") m.lines ++ " " ++
    sList (fun (o, ls) => s!"{o}:" ++ ",".intercalate (ls.map toString)) m.extra

def parseLMap (lines extra : List String) : LT.LMap :=
  let pl := lines.map fun t => match t.splitOn ":" with
    | [o, l] => (o.toNat!, if l == "-" then none else some l.toInt!)
    | _ => (0, none)
  let pe := extra.map fun t => match t.splitOn ":" with
    | [o, ls] => (o.toNat!, if ls == "" then [] else (ls.splitOn ",").map String.toInt!)
    | _ => (0, [])
  ⟨pl, pe⟩

def withCode (toks : Array String) (k : RawCode → String) : String :=
  match runP pRawCode (toks.extract 2 toks.size) with
  | .ok c => k c
  | .error e => "PARSE " ++ e

def withData (toks : Array String) (from_ : Nat) (k : CodeData → String) : String :=
  match runP pCodeData (toks.extract from_ toks.size) with
  | .ok d => k d
  | .error e => "PARSE " ++ e

def step (env : Env) (line : String) : Env × Option String :=
  let toks := (line.trimAscii.toString.splitOn " ").toArray
  let vs := toks[1]?.getD ""
  match toks[0]? with
  | some "optable" =>
    ({ env with tables := (vs, ⟨toks[2]!.toList.map clsOf⟩) :: env.tables }, none)
  | some "flagtable" =>
    let ann := toks[2]!.toNat!
    let known := (toks.toList.drop 3).map String.toNat!
    ({ env with flags := (vs, ⟨known, ann⟩) :: env.flags }, none)
  | some "decode" =>
    match verOf vs, lookup vs env.tables, lookup vs env.flags with
    | some v, some T, some F => (env, some (withCode toks fun c => showR sCodeData (toCodeData v T F c)))
    | _, _, _ => (env, some "NOENV")
  | some "encode" =>
    match verOf vs, lookup vs env.flags with
    | some v, some F => (env, some (withData toks 2 fun d => showR sRawCode (fromCodeData v F d)))
    | _, _ => (env, some "NOENV")
  | some "rt" =>       -- model-level C01 statement
    match verOf vs, lookup vs env.tables, lookup vs env.flags with
    | some v, some T, some F => (env, some (withCode toks fun c =>
        showR id (do
          let d ← toCodeData v T F c
          let c' ← fromCodeData v F d
          pure (if sRawCode c' == sRawCode c then "SAME" else "DIFF"))))
    | _, _, _ => (env, some "NOENV")
  | some "read" =>
    match verOf vs, lookup vs env.tables with
    | some v, some T => (env, some (withCode toks fun c => "OK " ++ " ".intercalate ((Spec.read v T c).map sSInstr)))
    | _, _ => (env, some "NOENV")
  | some "rdec" =>     -- model-level C02 statement
    match verOf vs, lookup vs env.tables, lookup vs env.flags with
    | some v, some T, some F => (env, some (withCode toks fun c =>
        showR id (do
          let d ← toCodeData v T F c
          let a := " ".intercalate ((viewOf d).map sSInstr)
          let b := " ".intercalate ((Spec.read v T c).map sSInstr)
          pure (if a == b then "SAME" else "DIFF"))))
    | _, _, _ => (env, some "NOENV")
  | some "sig" =>
    match verOf vs, lookup vs env.tables, lookup vs env.flags with
    | some v, some T, some F => (env, some (withCode toks fun c =>
        showR (fun d => match d.type with
          | some f => " ".intercalate (f.args.parameters.map fun (n, k) => sStr n ++ ":" ++ sKind k)
          | none => "NOTFUNCTION") (toCodeData v T F c)))
    | _, _, _ => (env, some "NOENV")
  | some "specsig" =>
    match verOf vs with
    | some v => (env, some (withCode toks fun c => match Spec.signature v c with
        | some ps => "OK " ++ " ".intercalate (ps.map fun (n, k) => sStr n ++ ":" ++ sKind k)
        | none => "ERR"))
    | none => (env, some "NOENV")
  | some "normalize" => (env, some (withData toks 1 fun d => "OK " ++ sCodeData (normCode d)))
  | some "iter" => (env, some (withData toks 1 fun d => showR (sList sCodeData) (iterCode d)))
  | some "allcode" => (env, some (withData toks 1 fun d => showR (sList sCodeData) (allCode d)))
  | some "tojson" => (env, some (withData toks 1 fun d => "OK " ++ sJson (jCodeData d)))
  | some "schemavalid" =>
    match runP pJson (toks.extract 1 toks.size) with
    | .ok j => (env, some ("OK " ++ toString (validate Extracted.jsonDefs Extracted.jsonRoot j)))
    | .error e => (env, some ("PARSE " ++ e))
  | some "fromjson" =>
    match runP pJson (toks.extract 1 toks.size) with
    | .ok j => (env, some (showR sCodeData (codeDataFromJson j)))
    | .error e => (env, some ("PARSE " ++ e))
  | some "linemap" =>      -- linemap <0|1 isLT> <codeLen> y<table hex>
    let isLT := vs == "1"
    let n := toks[2]!.toNat!
    let tbl := hexBytes ((toks[3]!.drop 1).toString)
    (env, some (showR sLMap (LT.toLineMapping isLT tbl n)))
  | some "linert" =>       -- to_line_mapping then from_line_mapping
    let isLT := vs == "1"
    let n := toks[2]!.toNat!
    let tbl := hexBytes ((toks[3]!.drop 1).toString)
    (env, some (showR (fun bs => "y" ++ bytesHex bs) (do
      let m ← LT.toLineMapping isLT tbl n
      LT.fromLineMapping isLT m)))
  | some "fromlinemap" =>  -- fromlinemap <isLT> L<n> off:line… L<m> off:a,b…
    let isLT := vs == "1"
    let rest := toks.toList.drop 2
    match rest with
    | l :: r =>
      let n := (l.drop 1).toString.toNat!
      let lines := r.take n
      let r2 := r.drop n
      let extra := match r2 with | _ :: e => e | [] => []
      (env, some (showR (fun bs => "y" ++ bytesHex bs) (LT.fromLineMapping isLT (parseLMap lines extra))))
    | [] => (env, some "PARSE")
  | some "lineof" =>       -- lineof <ver> <firstlineno> y<table> off…
    match verOf vs with
    | some v =>
      let fl := toks[2]!.toInt!
      let tbl := hexBytes ((toks[3]!.drop 1).toString)
      let offs := (toks.toList.drop 4).map String.toNat!
      (env, some ("OK " ++ " ".intercalate (offs.map fun o => sOpt toString (Spec.lineOf v tbl fl o))))
    | none => (env, some "NOENV")
  | some "asm" =>          -- asm <ver> bd:ld … (ld = - for no line)
    match verOf vs with
    | some v =>
      let evs := (toks.toList.drop 2).map fun t => match t.splitOn ":" with
        | [b, l] => (b.toNat!, if l == "-" then none else some l.toInt!)
        | _ => (0, none)
      let rows := if v.is310 then Spec.asmLT evs else Spec.asmOld v (evs.map fun (b, l) => (b, l.getD 0))
      (env, some ("OK y" ++ bytesHex (Spec.rowsToBytes rows)))
    | none => (env, some "NOENV")
  | some "flags" =>        -- flags <ver> <word>: to_flags_data then from_flags_data
    match lookup vs env.flags with
    | some F =>
      let w := toks[2]!.toNat!
      (env, some (showR (fun bits => s!"{sList toString bits} {fromFlags bits}") (toFlags F w)))
    | none => (env, some "NOENV")
  | some "heapfromjson" =>
    match runP pJson (toks.extract 1 toks.size) with
    | .ok j => (env, some s!"OK modified={Heap.modifiedInputNodes j}")
    | .error e => (env, some ("PARSE " ++ e))
  | some "cliaccepts" =>   -- cliaccepts <file> <c> <m> <e>  (1 = given)
    let g := fun (i : Nat) => toks[i]?.getD "0" == "1"
    (env, some ("OK " ++ (if Cli.accepts ⟨g 1, g 2, g 3, g 4⟩ then "accepted" else "usage-error")))
  | some "dataeq" =>       -- dataeq <CodeData> | <CodeData>
    match runP (do let a ← pCodeData; let _ ← next; let b ← pCodeData; pure (a, b)) (toks.extract 1 toks.size) with
    | .ok (a, b) => (env, some ("OK " ++ (if CodeData.beq a b then "T" else "F")))
    | .error e => (env, some ("PARSE " ++ e))
  | some "consteq" =>      -- consteq <const> | <const>
    match runP (do let a ← pConst; let _ ← next; let b ← pConst; pure (a, b)) (toks.extract 1 toks.size) with
    | .ok (a, b) => (env, some ("OK " ++ (if Const.keyEq a b then "T" else "F")))
    | .error e => (env, some ("PARSE " ++ e))
  | _ => (env, some "BAD")

partial def loop (h : IO.FS.Stream) (out : IO.FS.Stream) (env : Env) : IO Unit := do
  let line ← h.getLine
  if line.isEmpty then return ()
  let (env, o) := step env line
  match o with
  | some s => out.putStrLn s
  | none => pure ()
  loop h out env

def main : IO Unit := do
  let out ← IO.getStdout
  loop (← IO.getStdin) out {}
  out.flush
