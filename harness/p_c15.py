# 3.7-compatible (and runs on 3.11-3.13 consumers).  C15: the JSON form is portable across interpreter versions.
import sys, os, json, subprocess, dis, random
import ser, corpus, oracles as O
import props
from props import try_, V
from code_data import CodeData

PRODUCERS = {'3.7': '3.7.16', '3.8': '3.8.18', '3.9': '3.9.18', '3.10': '3.10.13'}
PYENV = '/root/.pyenv/versions'


def canon(j):
    """canonical text of a document: keys sorted, frozenset members sorted"""
    def c(x, key=None):
        if isinstance(x, dict):
            return {k: c(v, k) for k, v in x.items()}
        if isinstance(x, list):
            items = [c(v) for v in x]
            if key == 'frozenset':
                items.sort(key=lambda v: json.dumps(v, sort_keys=True))
            return items
        return x
    return json.dumps(c(j), sort_keys=True, allow_nan=False)


def produce(seed, tier, shard, nshards):
    """run under a producer: one JSON line per program"""
    class W0(object):
        pass
    w = W0(); w.seed, w.tier, w.shard, w.nshards = seed, tier, shard, nshards
    out = sys.stdout
    out.write(json.dumps({'opmap': dis.opmap, 'version': '%d.%d' % V}) + '\n')
    n = 0
    # programs only some producers can write (positional-only parameters from 3.8, `match` and instructions without a
    # line in 3.10, opcodes that exist in one version only): every consumer has to load what they produce
    # (seeded change C15-r3: a consumer-side feature check in a dataclass constructor)
    FEATURES = [("def f(a, /, b):\n    return a\n", 0), ("def f(a, b=1, /, c=2, *d, e, **g):\n    'doc'\n    return a\nh = lambda x, /: x\n", 0),
                ("def f(x):\n    match x:\n        case [a, b]:\n            return a\n        case {'k': v}:\n            return v\n    return None\n", 0),
                ("def f(x):\n    try:\n        return x\n    finally:\n        x = 1\nfor i in y:\n    if i: continue\n    try:\n        break\n    finally:\n        z = 1\n", 0),
                ("if (n := len(a)) > 1:\n    print(f'{n=}')\n", 0), ("async def f(x):\n    async with x as y, x as z:\n        return [i async for i in y]\n", 0),
                ("def f():\n    with a as b, c as d:\n        return b\n    x = {**p, 'k': 1}; y = [*q, 2]; z = (*q,)\n", 2),
                # containers whose members are distinct objects that only identity tells apart (two NaNs in one frozenset /
                # tuple, NaN-holding tuples in a frozenset), infinities, signed zeros: a consumer that shares one object
                # for all of them collapses the container (seeded change C15-r4)
                ("r = x in {1e999 * 0, -(1e999 * 0), 1}\ns = x in {(1e999 * 0, 1), (-(1e999 * 0), 1), 2.5}\n", 0),
                ("t = (1e999 * 0, -(1e999 * 0), 1e999, -1e999, 0.0, -0.0)\nu = x in {1e999, -1e999, 0.0, 1e999 * 0}\nv = x in {complex(1e999 * 0, 1), 2j}\n", 0),
                ("w = x in {(1e999 * 0, (1e999 * 0,)), ((1e999 * 0,), 1e999 * 0), -(1e999 * 0)}\n", 0),
                # fields only <=3.9 producers fill: `_additional_line` (with and without `additional_offsets`) and
                # `_line_offsets_override` on instructions without an operand (seeded changes C15-r5, C12-r5, C08-r5)
                ("def f(a):\n    return a\n    a = 2\n", 0), ("def f(a):\n    return a\n    a = 2\n\n\n    b = 3\n    c = 4\n", 0),
                ("x = 1\n" + "\n" * 253 + "class C:\n    pass\n", 0), ("def f(d):\n    while True:\n        if not d: break\n", 0),
                ("def f(c, xs):\n    for x in xs:\n        if c: g(); return\n", 0), ("x = %d\ny = (%d, -%d)\n" % (2 ** 1024, 10 ** 400, 2 ** 2000), 0)]
    if w.shard == 0:
        for k, (src, opt) in enumerate(FEATURES):
            try:
                c = compile(src, '<feature-%d>' % k, 'exec', dont_inherit=True, optimize=opt)
            except SyntaxError:
                continue
            d, e = try_(CodeData.from_code, c)
            if e is not None:
                continue
            out.write(json.dumps({'label': 'feature-%d' % k, 'opt': opt, 'doc': d.to_json_data(), 'norm': d.normalize().to_json_data()}) + '\n')
    for inp, c in props.programs(w, want=('fixed', 'special', 'gen')):
        d, e = try_(CodeData.from_code, c)
        if e is not None:
            continue
        doc = d.to_json_data()
        nd = d.normalize().to_json_data()
        out.write(json.dumps({'label': inp['label'], 'opt': inp['opt'], 'doc': doc, 'norm': nd}) + '\n')
        n += 1
        if tier != 'thorough' and n >= 40:
            break


def run_C15(w):
    here = os.path.dirname(os.path.abspath(__file__))
    for pv, full in sorted(PRODUCERS.items()):
        p = subprocess.run([os.path.join(PYENV, full, 'bin', 'python'), os.path.join(here, 'p_c15.py'), 'produce', str(w.seed), w.tier, str(w.shard), str(w.nshards)],
                           stdout=subprocess.PIPE, stderr=subprocess.PIPE, env=os.environ, timeout=3000)
        if p.returncode != 0:
            raise RuntimeError('producer %s failed: %s' % (pv, p.stderr.decode()[-500:]))
        lines = p.stdout.decode('utf-8').split('\n')
        head = json.loads(lines[0])
        ser.OPMAP = head['opmap']
        for line in lines[1:]:
            if line:
                rec = json.loads(line)
                w.guard(c15_doc, w, {'kind': 'jsondoc', 'producer': pv, 'label': rec['label'], 'opt': rec['opt'], 'doc': rec['doc'], 'norm': rec['norm'], 'opmap': head['opmap']})


def c15_doc(w, inp):
    ser.OPMAP = inp['opmap']
    doc = inp['doc']
    w.stats['documents'] += 1
    w.stats['from_' + inp['producer']] += 1
    ref = canon(doc)
    w.seen(ref)
    tokens = ser.s_json(doc)
    y, e = try_(CodeData.from_json_data, json.loads(json.dumps(doc)))
    w.op('M', 'fromjson ' + tokens, 'ERR' if e is not None else 'OK ' + ser.s_data(y))
    if e is not None:
        w.violation('C15:document-does-not-load', inp, {'error': O.exc_str(e)})
        return
    j2, e = try_(y.to_json_data)
    if e is not None:
        w.violation('C15:loaded-data-does-not-dump', inp, {'error': O.exc_str(e)})
        return
    w.op('M', 'tojson ' + ser.s_data(y), 'OK ' + ser.s_json(j2))
    if canon(j2) != ref:
        a, b = ref, canon(j2)
        k = next((i for i, (p, q) in enumerate(zip(a, b)) if p != q), min(len(a), len(b)))
        w.violation('C15:re-dump-differs', inp, {'written': a[max(0, k - 60):k + 60], 'redumped': b[max(0, k - 60):k + 60]})
    n, e = try_(lambda: y.normalize().to_json_data())
    if e is not None:
        w.violation('C15:normalize-raises-on-consumer', inp, {'error': O.exc_str(e)})
        return
    w.op('M', 'normalize ' + ser.s_data(y), 'OK ' + ser.s_data(y.normalize()))
    if canon(n) != canon(inp['norm']):
        w.violation('C15:normalize-differs-from-producer', inp, {})
    h, e = try_(hash, y)
    if e is not None:
        w.violation('C15:loaded-data-unhashable', inp, {'error': O.exc_str(e)})
    w.sample({'producer': inp['producer'], 'label': inp['label']})


if __name__ == '__main__' and len(sys.argv) > 1 and sys.argv[1] == 'produce':
    produce(int(sys.argv[2]), sys.argv[3], int(sys.argv[4]), int(sys.argv[5]))
else:
    props.RUN['C15'] = run_C15
    props.REPLAY['jsondoc'] = lambda w, prop, inp: c15_doc(w, inp)
