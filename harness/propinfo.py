"""Per-property tables used by check.py: which theorems decide the property, which interpreters the
correspondence runs on, how evidence counts are derived."""

TRUSTED_BASE = [
    "Lean 4.33.0 kernel (thorough tier: re-checked with leanchecker); axioms allowed: propext, Classical.choice, Quot.sound — no sorry/admit/native_decide/bv_decide/own axioms (source scan + #print axioms on every run)",
    "Model layer (lean/CDV/*.lean): hand translation of code_data/*.py, tied to /repo on every run by the correspondence check (differential run of the compiled model against the implementation on the real 3.7-3.10 interpreters, compared at public API boundaries)",
    "Translator tie (harness/extract.py): literal thresholds/limits are read from /repo's source by ast on every run and regenerate lean/CDV/Extracted.lean, over which model and theorems are stated",
    "Spec layer (lean/CDV/Spec.lean): my rendering of CPython's own readers/assemblers (dis, PyCode_Addr2Line, co_lines, inspect.signature, assemble_lnotab/assemble_line_range); modelled, not verified; compared with the real interpreters on every run (a disagreement makes the check exit 2)",
    "Protocol serialiser (harness/ser.py, lean/CDV/Proto*.lean) and the direct oracles in harness/*.py",
]

PROGRAM_RULE = ("programs: the repository's own examples and minimized files, hand-written boundary programs (harness/corpus.py special_sources), "
                "a grammar-directed generator seeded by VERIF_SEED, and a seed-chosen slice (thorough: all) of each interpreter's standard library; "
                "every nested code object counts; distinct = distinct serialised inputs per interpreter")

PROPS = {
    'C01': {
        'theorems': [],
        'eval_keys': ['code_objects'],
        'rule': PROGRAM_RULE + '; non-trivial = the code object round-trips attribute-exactly or a classified violation is reported',
        'statement_coverage': '',
    },
    'C02': {'theorems': [], 'eval_keys': ['code_objects'], 'rule': PROGRAM_RULE},
    'C13': {'theorems': [], 'eval_keys': ['code_objects'], 'rule': PROGRAM_RULE},
    'C09': {'theorems': [], 'eval_keys': ['code_objects'], 'rule': PROGRAM_RULE},
    'C14': {'theorems': [], 'eval_keys': ['code_objects'], 'rule': PROGRAM_RULE},
    'C04': {'theorems': [], 'eval_keys': ['code_objects'], 'rule': 'signature shapes x function kinds x docstring shapes x optimize, plus all scopes of the program corpus'},
    'C10': {
        'theorems': ['CDV.Props.C10.C10_bytes', 'CDV.Props.C10.C10_expand_collapse', 'CDV.Props.C10.C10_bytes_rows_roundtrip'],
        'modules': ['CDVProofs.LineTable', 'CDVProofs.Props.C10'],
        'eval_keys': ['line_programs', 'real_tables'],
        'rule': ('abstract line programs (0-8 events, byte deltas and line deltas drawn from and around 127/128, 254/255 and multiples, '
                 'zero-byte events on <=3.9, no-line events on 3.10) assembled by an independent rendering of assemble_lnotab / assemble_line_range, '
                 'installed on a real code object; plus every table of the program corpus; distinct = distinct (table, code length)'),
    },
}
