"""Per-property tables used by check.py: which theorems decide the property, which interpreters the
correspondence runs on, how evidence counts are derived."""

TRUSTED_BASE = [
    "Lean 4.33.0 kernel (thorough tier: re-checked with leanchecker); axioms allowed: propext, Classical.choice, Quot.sound — no sorry/admit/native_decide/bv_decide/own axioms (source scan + #print axioms on every run)",
    "Model layer (lean/CDV/*.lean): hand translation of code_data/*.py, tied to /repo on every run by the correspondence check (differential run of the compiled model against the implementation on the real 3.7-3.10 interpreters, compared at public API boundaries)",
    "Translator tie (harness/extract.py): literal thresholds/limits are read from /repo's source by ast on every run and regenerate lean/CDV/Extracted.lean, over which model and theorems are stated",
    "Spec layer (lean/CDV/Spec.lean): my rendering of CPython's own readers/assemblers (dis, PyCode_Addr2Line, co_lines, inspect.signature, assemble_lnotab/assemble_line_range); modelled, not verified; compared with the real interpreters on every run (a disagreement makes the check exit 2)",
    "Protocol serialiser (harness/ser.py, lean/CDV/Proto*.lean) and the direct oracles in harness/*.py",
]

PROGRAM_RULE = ("programs: the repository's own examples and minimized files, hand-written boundary programs (harness/corpus.py special_sources), "
                "a grammar-directed generator seeded by VERIF_SEED, and a seed-chosen slice (thorough: all) of each interpreter's standard library; "
                "every nested code object counts; distinct = distinct serialised inputs per interpreter")

PROPS = {
    'C01': {
        'na_reason': 'no theorem under its own name yet: the check (attribute-exact round trip of every compiled code object on 3.7-3.10 + model tie) exists, runs and detects seeded changes, and its components are proved under C02 (reader), C03 (assembler), C09 (tables), C10 (line table stages 1-2), C11 (flags); claiming level proof for the composed round trip before it is a theorem would overstate',
        'theorems': [],
        'eval_keys': ['code_objects'],
        'rule': PROGRAM_RULE + '; non-trivial = the code object round-trips attribute-exactly or a classified violation is reported',
        'statement_coverage': '',
    },
    'C02': {
        'claimed': True,
        'level_text': "Proved about the model of the decoder (_parse_bytes, to_arg, bytes_to_blocks, to_line_mapping) against the Spec layer's rendering of CPython's readers, for every byte string, every set of tables, every line table and every opcode classification - no bound: (instructions) _parse_bytes yields exactly CPython's instructions - opcode, signed 32-bit operand with EXTENDED_ARG prefixes folded, first and next offset - whenever no instruction has more than three prefixes (C02_instructions); (operands) the decoded list has one instruction per raw instruction with the same opcode, and each operand is related to the raw operand by CPython's own resolution rule for its class: co_names[arg], co_varnames[arg], cell iff arg < len(co_cellvars) else co_freevars[arg-len], co_consts[arg], absolute target arg x unit, relative target next offset + arg x unit with the right kind (C02_operands); (jumps) if every jump target is an instruction start, the block index stored in a jump is the index of the block whose first instruction is the instruction at the target offset (C02_jump_blocks, with C02_flatten = the C13 partition); (lines) for every co_linetable (3.10) of in-range rows and every co_lnotab (3.7-3.9), with even address deltas, every decoded instruction's line_number is the line CPython's own reader (co_lines / PyCode_Addr2Line + co_firstlineno) assigns to the instruction's first offset, None exactly where CPython reports no line (C02_lines_310, C02_lines_lnotab - the latter includes termination of the decoding loop); and to_code_data calls exactly these pieces on the code object's own bytecode, tables and line table (toCodeDataGo_decompose). Not a theorem: the final assembly of these facts into one statement about Spec.read (the pieces share their hypotheses but are stated separately), and that the model is the implementation - the latter is decided on every run by the correspondence (model decode = implementation on every code object; Spec.read = dis.get_instructions + PyCode_Addr2Line / co_lines on every code object) and the direct oracle against dis on 3.7-3.10.",
        'theorems': ['CDV.Props.C02.C02_instructions', 'CDV.Props.C02.C02_operands', 'CDV.Props.C02.C02_jump_blocks', 'CDV.Props.C02.C02_flatten',
                     'CDV.Props.C02.C02_lines_310', 'CDV.Props.C02.C02_lines_lnotab', 'CDV.toCodeDataGo_decompose'],
        'modules': ['CDVProofs.Bytes', 'CDVProofs.DecodeOps', 'CDVProofs.BlockStarts', 'CDVProofs.ParseOffsets', 'CDVProofs.LineSem', 'CDVProofs.LineSemOld', 'CDVProofs.DecodeLines', 'CDVProofs.DecodeTop', 'CDVProofs.Props.C02'],
        'eval_keys': ['code_objects'], 'rule': PROGRAM_RULE},
    'C13': {
        'claimed': True,
        'level_text': "Proved for every decoded instruction list (any offsets, any jumps - no bound): the block-building half of bytes_to_blocks returns blocks that concatenate to exactly the instruction sequence in order (only jump operands rewritten to block indices), none empty; there are exactly as many blocks as instructions whose offset is 0 or a jump target (no more, no fewer); grouping succeeds whenever the code starts at offset 0; every jump's block index is the rank of its target among the sorted targets and is smaller than the number of targets (C13_partition, C13_block_count, C13_total, C13_jump_index_in_targets). Not yet a theorem: that the number of targets equals the number of blocks (needs 'every jump target is an instruction start', a fact about compiled code) and that offsets produced by _parse_bytes are the instruction starts; those are decided by the correspondence (model decode = implementation on every code object) and the direct oracle against the jump-target set computed from dis.get_instructions.",
        'theorems': ['CDV.Props.C13.C13_partition', 'CDV.Props.C13.C13_block_count', 'CDV.Props.C13.C13_total', 'CDV.Props.C13.C13_jump_index_in_targets'],
        'modules': ['CDVProofs.Blocks', 'CDVProofs.Props.C13'],
        'eval_keys': ['code_objects'], 'rule': PROGRAM_RULE},
    'C09': {
        'claimed': True,
        'level_text': "Proved about the table bookkeeping of decoder (ToArgs.found_index / additional_args) and encoder (FromArgs.add), for every table, every equivalence used as key (shown for names and for constant_key incl. nested CodeData) and every sequence of uses - no bound: (sufficient) re-encoding the decoded operands in order returns exactly the indices they were decoded from, and the additional arguments complete the table with the original entries, each once (C09_overrides_sufficient, C09_additional_complete); (no redundancy) an operand decoded without an override has table position = first-use rank and a key that resolves to that position, and an override on the first use of an entry is justified because without it the encoder would place the entry elsewhere (C09_no_override_means_rank, C09_override_justified). By a refinement invariant (Sim) between the two state machines, induction over the use sequence. Not theorems: that the decoder feeds the tables exactly the operand sequence CPython's disassembly shows (parameters and docstring first) and that the emitted tuple is sorted - decided by the correspondence (model decode = implementation) and the direct oracle: overrides against first-use ranks computed from dis, re-encoding with each remaining override stripped, on compiled and canonically re-encoded code.",
        'theorems': ['CDV.Props.C09.C09_overrides_sufficient', 'CDV.Props.C09.C09_additional_complete', 'CDV.Props.C09.C09_no_override_means_rank', 'CDV.Props.C09.C09_override_justified', 'CDV.Props.C09.keyEquiv_str', 'CDV.Props.C09.keyEquiv_const'],
        'modules': ['CDVProofs.Tables', 'CDVProofs.Props.C09'],
        'eval_keys': ['code_objects'], 'rule': PROGRAM_RULE},
    'C14': {
        'claimed': True,
        'level_text': "Proved for every CodeData (no bound; nested code by induction on depth): whenever to_code's operand tables can be built, iterating the data yields exactly the nested CodeData of the constants table that to_code emits, in table order - each entry once whether it is loaded by one instruction, by several, or by none (C14_iter_is_constants_table); if to_code succeeds, encoding the iterated CodeData one by one gives exactly the code objects in co_consts of the result (C14_iter_matches_co_consts); all_code_data starts with the object itself (C14_all_starts_with_self). That the re-encoded constants are the original code object's constants (the C01 round trip) and that each yielded element equals the stand-alone decoding of the nested code object are not theorems: they are decided by the correspondence (model iter = implementation on every decoded object) and the direct oracle against a recursive walk of co_consts with stand-alone decoding, including dead-code and cross-scope-equal-lambda programs.",
        'theorems': ['CDV.Props.C14.C14_iter_is_constants_table', 'CDV.Props.C14.C14_iter_matches_co_consts', 'CDV.Props.C14.C14_all_starts_with_self'],
        'modules': ['CDVProofs.Iter', 'CDVProofs.Props.C14'],
        'eval_keys': ['code_objects'], 'rule': PROGRAM_RULE},
    'C04': {
        'claimed': True,
        'level_text': "Proved for all headers (any counts/flags/variable tables with distinct parameter names): args_from_input succeeds and Args.parameters is exactly CPython's binding of co_varnames in inspect.signature order (C04_signature, against Spec.sigCore, which is itself compared with inspect.signature on the real interpreters every run). Docstring, function kind, len(args) and 'type is None for modules/classes' are decided by the correspondence and the direct oracle against inspect / function objects over all signature shapes x function kinds x docstring shapes.",'theorems': ['CDV.Props.C04.C04_signature'], 'modules': ['CDVProofs.Args', 'CDVProofs.Props.C04'], 'eval_keys': ['code_objects'], 'rule': 'signature shapes x function kinds x docstring shapes x optimize, plus all scopes of the program corpus'},
    'C10': {
        'claimed': True,
        'level_text': "Proved for all inputs (no bound on table length or deltas, no assumption that CPython's assembler wrote the table): (decoding agrees with CPython) for every co_linetable (3.10) of in-range rows with even address deltas - forward/backward line jumps of any size, ranges beyond one entry's 254 bytes, zero-width entries, runs without line - to_line_mapping succeeds, every entry of the decoded mapping carries the line CPython's reader assigns to that offset (None = no line) and every offset in the table's range has an entry (C10_decoded_lines_310); for every co_lnotab (3.7-3.9) with even address deltas to_line_mapping terminates (the while loop ends - with an odd address it would not, shown by example) and every even offset below the code length maps to exactly PyCode_Addr2Line's line (C10_decoded_lines_lnotab); (re-encoding, stages 1-2) bytes<->rows and collapse/expand are lossless on every list of in-range rows, both formats, with collapse never raising (C10_bytes, C10_expand_collapse, C10_bytes_rows_roundtrip). Not yet a theorem: stage 3 in the encoding direction (mapping_to_items inverts items_to_mapping on decoded mappings), which the byte-for-byte claim needs besides stages 1-2; it is decided on every run by the correspondence (model = implementation end to end on every generated and real table) together with the direct oracle (re-encoded table = original, lines = PyCode_Addr2Line) on 3.7-3.10.",
        'theorems': ['CDV.Props.C10.C10_decoded_lines_310', 'CDV.Props.C10.C10_decoded_lines_lnotab', 'CDV.Props.C10.C10_bytes', 'CDV.Props.C10.C10_expand_collapse', 'CDV.Props.C10.C10_bytes_rows_roundtrip'],
        'modules': ['CDVProofs.LineTable', 'CDVProofs.LineSem', 'CDVProofs.LineSemOld', 'CDVProofs.Props.C10'],
        'eval_keys': ['line_programs', 'real_tables'],
        'rule': ('abstract line programs (0-8 events, byte deltas and line deltas drawn from and around 127/128, 254/255 and multiples, '
                 'zero-byte events on <=3.9, no-line events on 3.10) assembled by an independent rendering of assemble_lnotab / assemble_line_range, '
                 'installed on a real code object; plus every table of the program corpus; distinct = distinct (table, code length)'),
    },
    'C05': {
        'claimed': True,
        'level_text': 'Proved for every CodeData (structural induction through nested code): normalize changes no public field and nothing the reading depends on - flattened instruction stream with resolved operands, jump structure, per-instruction lines, header (C05_meaning_invariant, C05_private_cleared). That the *encoded* normalized code reads the same, and that executing both behaves the same, is not a theorem (no evaluator model): it is decided by the correspondence, the direct oracle on dis readings, and execution of generated terminating programs with stdout/exception/settrace comparison on 3.7-3.10 (that part is exploration).',
        'theorems': ['CDV.Props.C05.C05_meaning_invariant', 'CDV.Props.C05.C05_private_cleared'],
        'modules': ['CDVProofs.Normalize', 'CDVProofs.Props.C05'],
        'eval_keys': ['code_objects', 'executed'],
        'rule': PROGRAM_RULE + '; plus generated terminating programs executed from the original and from the normalized code with captured stdout, exception and sys.settrace events',
    },
    'C06': {
        'claimed': True,
        'level_text': 'Proved: normalize is idempotent on every CodeData, any number of normalize calls equals one, and history stability is an induction over arbitrary operation sequences from two one-step laws (C06_idempotent, C06_normalize_history, C06_history). The two one-step laws (JSON round trip, code round trip of normalized data) enter C06_history as hypotheses; they and the canonicity over serialization variants are decided by the correspondence and the direct oracle: random histories through the real API with real json, and independently assembled table-permuted / padded / EXTENDED_ARG / CO_NESTED variants, on 3.7-3.10.',
        'theorems': ['CDV.Props.C06.C06_idempotent', 'CDV.Props.C06.C06_normalize_history', 'CDV.Props.C06.C06_history'],
        'modules': ['CDVProofs.Normalize', 'CDVProofs.Props.C06'],
        'eval_keys': ['code_objects', 'histories', 'variants'],
        'rule': PROGRAM_RULE + '; histories = random operation sequences over {normalize, code round trip, JSON round trip through json.dumps/loads}; variants = table permutations, padding, redundant EXTENDED_ARG on jumps, CO_NESTED built by an independent assembler (harness/variants.py) and checked to read the same',
    },
    'C11': {
        'claimed': True,
        'level_text': 'Proved for every flag word and every table of known flags (unbounded): a successful conversion is lossless, every combination of known flags converts, any unknown bit makes the conversion raise, and the names are exactly the set bits (C11_*). The second sentence of the property (from_code of arbitrary altered headers raises or reproduces every header field) is not yet a theorem: it is decided by the correspondence plus the direct oracle on header alterations of a family of base code objects on 3.7-3.10.',
        'theorems': ['CDV.Props.C11.C11_flags_roundtrip', 'CDV.Props.C11.C11_known_ok', 'CDV.Props.C11.C11_unknown_raises', 'CDV.Props.C11.C11_names_exact'],
        'modules': ['CDVProofs.Flags', 'CDVProofs.Props.C11'],
        'eval_keys': ['flag_words', 'altered_headers'],
        'rule': 'flag words: every single bit 0-30, all-known, all-known plus each unknown bit, random known/unknown mixtures (thorough: every subset of the known flags); header alterations: flag xor masks and argument-count deltas applied to a family of base code objects with code.replace / types.CodeType',
        'exhaustive': {'thorough': False},
    },
    'C07': {
        'claimed': True,
        'level_text': "Proved for every CodeData whose non-constant integers are JSON-safe (C ints in decoded data) - by mutual induction through nested code, with no bound on sizes or nesting: from_json_data(to_json_data(x)) succeeds and returns x with all NaNs identified (C07_roundtrip, C07_constants: every constant kind, every string position incl. lone surrogates, every private field, unambiguous tag dispatch); integers are written as JSON numbers only inside +-(2^53-1) (about the MIN/MAX_INTEGER read from the source on this run), floats only when finite, strings only without lone surrogates (C07_int_strict, C07_float_strict, C07_str_strict); the canonical form differs from x only in NaN payloads (C07_canon_float_key). Not theorems: validity against the published JSON_SCHEMA and the real serialize/parse cycle (json.dumps/loads float printing, repr/literal_eval, base64 are runtime facts built into the abstract JSON strings of the model) - decided by the correspondence (model = implementation on every document, tojson and fromjson) and the direct oracle with an independent schema validator, real json round trips, hash/equality and to_code comparison.",
        'theorems': ['CDV.Props.C07.C07_roundtrip', 'CDV.Props.C07.C07_constants', 'CDV.Props.C07.C07_int_strict', 'CDV.Props.C07.C07_float_strict', 'CDV.Props.C07.C07_str_strict', 'CDV.Props.C07.C07_canon_float_key', 'CDV.Props.C07.C07_canon_idem_float'],
        'modules': ['CDVProofs.Json', 'CDVProofs.Props.C07'],
        'eval_keys': ['documents'],
        'rule': PROGRAM_RULE + '; each decoded and normalized CodeData, plus synthetic CodeData with generated constants (nested tuples/frozensets to depth 4, edge floats/ints/strings/bytes/complex, lone surrogates) in every position; distinct = distinct documents',
    },
    'C08': {
        'claimed': True,
        'level_text': "Proved for all constants at any nesting of tuples and frozensets (no bound): Constant equality (equality of constant_key) is reflexive, symmetric and transitive; it never identifies values of different types (int/bool/float/complex, str/bytes, tuple/frozenset), distinguishes non-NaN floats by bit pattern (so 0.0 and -0.0), is pointwise inside tuples, and identifies all NaNs; position overrides are part of the value; dataclass equality of whole CodeData (nested code included) is an equivalence relation as well (C08_*). Not theorems: the hash contract (hash is computed from the same key; that Python's hash respects equality of tuples/frozensets/str is a runtime fact), immutability (frozen dataclasses: exhaustive setattr/delattr probe over every field of every class on each interpreter), 'equal data encode to identical code' and the agreement of the partition with CPython's own _PyCode_ConstantKey - those are decided by the correspondence (model consteq = implementation == on every generated pair) and the direct oracle (ctypes _PyCode_ConstantKey as reference partition, set/dict membership, pairs of CodeData obtained by different routes).",
        'theorems': ['CDV.Props.C08.C08_eq_refl', 'CDV.Props.C08.C08_eq_symm', 'CDV.Props.C08.C08_eq_trans', 'CDV.Props.C08.C08_data_eq_refl', 'CDV.Props.C08.C08_data_eq_symm', 'CDV.Props.C08.C08_data_eq_trans',
                     'CDV.Props.C08.C08_int_ne_bool', 'CDV.Props.C08.C08_int_ne_float', 'CDV.Props.C08.C08_bool_ne_float', 'CDV.Props.C08.C08_float_ne_complex', 'CDV.Props.C08.C08_str_ne_bytes',
                     'CDV.Props.C08.C08_tuple_ne_fset', 'CDV.Props.C08.C08_float_exact', 'CDV.Props.C08.C08_signed_zero', 'CDV.Props.C08.C08_tuple_pointwise', 'CDV.Props.C08.C08_nan_identified', 'CDV.Props.C08.C08_override_matters'],
        'modules': ['CDVProofs.Constants', 'CDVProofs.BeqData', 'CDVProofs.Props.C08'],
        'eval_keys': ['pairs', 'fields_checked'],
        'rule': 'pairs of Constant values built from generated constants and their fresh-identity / numerically-equal companions, partition compared with ctypes _PyCode_ConstantKey; pairs of CodeData obtained by different routes (decode twice, JSON load, normalize); every field of every dataclass for immutability',
    },
    'C12': {
        'claimed': True,
        'level_text': "Proved about a heap model of the dict/list manipulation in _json_data.py (documents as nodes with identities; copy = allocation, d[k]=v = write, reads return references): in any heap, from_json_data writes only into nodes it allocated itself, so for every JSON document no node of the caller's document is modified (C12_from_json_frame, C12_from_json_modifies_nothing). This is deliberately a small proved core: that from_code/to_code/normalize/to_json_data do not modify their arguments rests on the immutability of code objects, frozen dataclasses and tuples (a Python runtime fact), and repeatability / absence of shared mutable state between calls is decided by the correspondence and the direct oracle: deep identity snapshots of every argument before and after each call over random interleaved call histories, 1st vs n-th result, mutation of returned documents.",
        'theorems': ['CDV.Props.C12.C12_from_json_frame', 'CDV.Props.C12.C12_from_json_modifies_nothing'],
        'modules': ['CDVProofs.Heap', 'CDVProofs.Props.C12'],
        'eval_keys': ['calls'],
        'rule': 'random interleaved histories of from_code / to_code / normalize / to_json_data / from_json_data on a fixed pool of objects per program (repeated calls included), with deep snapshots (structure + node identities) of the argument before and after every call; distinct = distinct programs',
    },
    'C15': {
        'claimed': True,
        'level_text': "The model of to_json_data / from_json_data / normalize has no interpreter-version parameter (its type is the proof that the model is host-independent); proved on top, for every CodeData with JSON-safe integers: a document written, loaded and written again is the identical document, and normalizing the loaded data gives the producer's normalized document (C15_redump, C15_normalize_commutes, C15_reload_stable). That this one version-free model describes the implementation on every host is exactly the correspondence claim and is checked as such on every run: documents written under each of 3.7-3.10 are loaded, re-dumped and normalized under each of 3.7-3.13 (the last three cannot build code objects), canonical dumps compared byte for byte, and every consumer compared with the model's fromjson / tojson / normalize.",
        'theorems': ['CDV.Props.C15.C15_redump', 'CDV.Props.C15.C15_normalize_commutes', 'CDV.Props.C15.C15_reload_stable'],
        'modules': ['CDVProofs.JsonCanon', 'CDVProofs.Props.C15'],
        'interps': ['3.7', '3.8', '3.9', '3.10', '3.11', '3.12', '3.13'],
        'shards': {'quick': 2, 'thorough': 2},
        'eval_keys': ['documents'],
        'rule': 'documents written by to_json_data under each of 3.7-3.10 (producers run as subprocesses) loaded, re-dumped and normalized under each of 3.7-3.13; canonical dumps compared byte for byte; distinct = distinct documents',
    },
    'C16': {
        'claimed': True,
        'level_text': "Proved about a model of the decision logic of _cli.main only: the command accepts exactly the four ways of giving exactly one source, 'given' meaning present (not truthy); what is printed is normalize(decode) by default and decode with --no-normalize, and --json is to_json_data of that same value (C16_validation, C16_usage_error, C16_printed, C16_json, C16_default_is_normal). argparse, compile, printing and exit statuses are process behaviour no model here expresses: they are decided by the direct oracle - code_data._cli.main run in a subprocess on each of 3.7-3.10 over source kinds x flag combinations, stdout parsed back (repr evaluated, JSON loaded, --dis-after compared with --dis) and compared with the in-process API - and the accept/reject decision is compared with the model on every run.",
        'theorems': ['CDV.Props.C16.C16_validation', 'CDV.Props.C16.C16_usage_error', 'CDV.Props.C16.C16_printed', 'CDV.Props.C16.C16_json', 'CDV.Props.C16.C16_default_is_normal'],
        'modules': ['CDVProofs.Props.C16'],
        'eval_keys': ['invocations', 'usage_invocations'],
        'rule': 'subprocess invocations: programs x {file, -c, -e} x subsets of the five output flags; every subset of the four source options with empty and non-empty values (usage errors); distinct = distinct (source kind, program, flags)',
    },
    'C03': {
        'claimed': True,
        'level_text': "Proved about the model of blocks_to_bytes, for every instruction list, block table, interpreter version and operand values - no bound on sizes or on the number of width-growth rounds: (termination) entered as the code enters it (every jump operand 1), the operand-width loop never exhausts 3 x jumps + 3 passes - each pass can only widen instructions, a pass that reports a change widens one, widths are at most 4 (C03_loop_terminates); (jumps land) whenever the loop returns, CPython's reader reads the assembled bytes back as one instruction per instruction with the same opcode, and the target CPython computes from each assembled jump operand is the offset of the first instruction of the jump's target block, for absolute and relative jumps on both operand units (C03_jumps_land, C03_reads_back; hypothesis: operands fit the C-int range / their width override); (operands) an index a table hands out for a name/variable/cell/constant still designates an entry equivalent under the table's key (constant_key for constants - C08 shows it separates 0.0 and -0.0, 1/True/1.0, str/bytes) after any further table operations, and lies inside the emitted tuple whenever to_tuple succeeds; colliding overrides raise in __setitem__, gaps raise in to_tuple (C03_operand_in_table, C03_collision_raises, C03_gap_raises). Not theorems: the line table written for the given lines (stage 3 of the line codec), signature/flags of the header, and 'decoding again gives equal data up to normalization' - decided, together with model = implementation, by the correspondence on hand-built CodeData (random block graphs straddling the 1/2/3-byte operand boundaries, operand tables that need EXTENDED_ARG operands, CPython-distinct equal constants, inconsistent overrides) and the direct oracle that reads to_code() back with dis / co_lines / inspect on 3.7-3.10.",
        'theorems': ['CDV.Props.C03.C03_loop_terminates', 'CDV.Props.C03.C03_jumps_land', 'CDV.Props.C03.C03_reads_back', 'CDV.Props.C03.C03_default_width_fits',
                     'CDV.Props.C03.C03_operand_in_table', 'CDV.Props.C03.C03_empty_inv', 'CDV.Props.C03.C03_collision_raises', 'CDV.Props.C03.C03_gap_raises'],
        'modules': ['CDVProofs.Bytes', 'CDVProofs.Relax', 'CDVProofs.EncodeRead', 'CDVProofs.EncTables', 'CDVProofs.Props.C03'],
        'eval_keys': ['graphs'],
        'rule': 'hand-built CodeData without private fields: random block graphs (1-12 blocks, thorough up to 40; block sizes around 126-129 and 254-257 instructions so that offsets straddle the 1/2-byte operand boundary), absolute jumps both directions and forward relative jumps, operand tables of 0..400 entries (EXTENDED_ARG operands), constants that are equal but CPython-distinct, lines same/increasing/wild (+-127/128/255/256/1000, None on 3.10), all signature shapes; plus inconsistent-override data (must raise) and user-edited decoded data; distinct = distinct serialised CodeData',
    },
}
