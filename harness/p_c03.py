# 3.7-compatible.  C03: encoding any well-formed CodeData yields code that says what the data says.
import sys, types, random, dis, inspect, dataclasses
import ser, corpus, oracles as O
import props
from props import try_, VS, V, m_encode, m_decode
import code_data as cd
from code_data import CodeData, Instruction, Constant, Name, Varname, Cellvar, Freevar, Jump, NoArg, Function, Args

V310 = V >= (3, 10)

JABS = [n for n in ['JUMP_ABSOLUTE', 'POP_JUMP_IF_FALSE', 'POP_JUMP_IF_TRUE', 'JUMP_IF_TRUE_OR_POP'] if n in dis.opmap and dis.opmap[n] in dis.hasjabs]
JREL = [n for n in ['JUMP_FORWARD', 'FOR_ITER', 'SETUP_FINALLY', 'SETUP_WITH'] if n in dis.opmap and dis.opmap[n] in dis.hasjrel]
NAMEOPS = ['LOAD_NAME', 'STORE_NAME', 'LOAD_ATTR', 'LOAD_GLOBAL']
LOCALOPS = ['LOAD_FAST', 'STORE_FAST']
FREEOPS = ['LOAD_DEREF', 'STORE_DEREF', 'LOAD_CLOSURE']
RAWOPS = [n for n in ['CALL_FUNCTION', 'BUILD_TUPLE', 'BUILD_LIST', 'UNPACK_SEQUENCE'] if n in dis.opmap]
NOARGOPS = ['NOP', 'POP_TOP', 'DUP_TOP', 'RETURN_VALUE', 'BINARY_ADD']

TRICKY = [0.0, -0.0, 0, False, 1, True, 1.0, 'a', b'a', '', b'', None, Ellipsis, (0.0,), (-0.0,), (1,), (True,), (1.0,), 0j, complex(0.0, -0.0),
          float('nan'), frozenset([1]), frozenset([1.0]), frozenset([True]), 'doc', 2 ** 70]


def gen_data(rng, tier):
    """(CodeData, meta) — a well-formed block graph with no private override fields"""
    big = rng.random() < (.25 if tier != 'thorough' else .4)
    nblocks = rng.choice([1, 1, 2, 3, 4, 6, 9, 12] if tier != 'thorough' else [1, 2, 3, 5, 8, 13, 21, 40])
    nnames = rng.choice([0, 1, 3, 8, 255, 256, 257, 300]) if big else rng.choice([0, 1, 2, 5])
    nconsts = rng.choice([1, 3, 200, 255, 256, 257, 400]) if big else rng.choice([1, 2, 4, 8])
    nlocals = rng.choice([0, 1, 3, 255, 256, 260]) if big and rng.random() < .3 else rng.choice([0, 1, 2, 4])
    ncells = rng.choice([0, 0, 1, 3])
    nfree = rng.choice([0, 0, 1, 2])
    is_fn = rng.random() < .6 or ncells or nfree or nlocals
    names = ['n%d' % i for i in range(nnames)]
    consts = []
    pool = list(TRICKY)
    rng.shuffle(pool)
    for i in range(nconsts):
        consts.append(pool[i] if i < len(pool) and rng.random() < .7 else 1000 + i)
    cells = ['c%d' % i for i in range(ncells)]
    frees = ['f%d' % i for i in range(nfree)]
    # signature
    if is_fn:
        npos = rng.choice([0, 0, 1, 2]) if V >= (3, 8) else 0
        npk = rng.choice([0, 1, 2]); nkw = rng.choice([0, 0, 1, 2])
        pos = tuple('p%d' % i for i in range(npos)); pk = tuple('a%d' % i for i in range(npk)); kw = tuple('k%d' % i for i in range(nkw))
        va = rng.choice([None, 'va']); vk = rng.choice([None, 'vk'])
        args = Args(positional_only=pos, positional_or_keyword=pk, var_positional=va, keyword_only=kw, var_keyword=vk)
        params = list(pos + pk) + ([va] if va else []) + list(kw) + ([vk] if vk else [])
        doc = rng.choice([None, None, 'the doc', '', 'a'])
        ftype = rng.choice([None, None, 'GENERATOR', 'COROUTINE', 'ASYNC_GENERATOR'])
        tp = Function(args, doc, ftype)
    else:
        params = []; tp = None
    localnames = params + ['v%d' % i for i in range(nlocals)]
    first = rng.choice([1, 1000, 100000])
    lines_mode = rng.choice(['same', 'inc', 'wild', 'wild', 'runs', 'none-mix'] if V310 else ['same', 'inc', 'wild', 'wild', 'runs'])
    cur = [first + rng.randrange(0, 3)]
    run = [0]

    def line():
        if lines_mode == 'same': return cur[0]
        if lines_mode == 'runs':
            # long stretches of bytecode on one line, then a line jump: rows that need BOTH the address split (> 255 / 254
            # bytes) and the line split (beyond +-127/128) - seeded change C03-r7 / C10-r7
            if run[0] <= 0:
                run[0] = rng.choice([1, 2, 100, 127, 128, 129, 130, 200, 255, 256, 300])
                cur[0] = max(1, cur[0] + rng.choice([1, -1, 127, 128, 129, -128, -129, -130, 200, -200, 300, 1000, -1000]))
            run[0] -= 1
            return cur[0]
        if lines_mode == 'inc':
            cur[0] += rng.choice([0, 0, 1, 1, 2]); return cur[0]
        if lines_mode == 'none-mix' and rng.random() < .4: return None
        cur[0] = max(1, cur[0] + rng.choice([0, 0, 1, -1, 126, 127, 128, 129, -127, -128, -129, 254, 255, 256, -254, -255, -256, 1000, -1000]))
        return cur[0]

    blocks = []
    for b in range(nblocks):
        n = rng.choice([1, 1, 2, 3, 5]) if not (big or lines_mode == 'runs') else rng.choice([1, 2, 3, 60, 126, 127, 128, 129, 254, 255, 256, 257])
        ins = []
        for _ in range(n):
            k = rng.randrange(10)
            if k == 0 and names: ins.append(Instruction(rng.choice(NAMEOPS), Name(rng.choice(names)), line_number=line()))
            elif k == 1 and localnames: ins.append(Instruction(rng.choice(LOCALOPS), Varname(rng.choice(localnames)), line_number=line()))
            elif k in (2, 3): ins.append(Instruction('LOAD_CONST', Constant(rng.choice(consts)), line_number=line()))
            elif k == 4 and cells: ins.append(Instruction(rng.choice(FREEOPS), Cellvar(rng.choice(cells)), line_number=line()))
            elif k == 5 and frees: ins.append(Instruction(rng.choice(FREEOPS), Freevar(rng.choice(frees)), line_number=line()))
            elif k == 6: ins.append(Instruction(rng.choice(RAWOPS), rng.choice([0, 1, 2, 255, 256, 65535, 65536, 16777215, 16777216, 2 ** 31 - 1]), line_number=line()))
            elif k == 7 and JABS: ins.append(Instruction(rng.choice(JABS), Jump(rng.randrange(nblocks), False), line_number=line()))
            elif k == 8 and JREL and b + 1 < nblocks: ins.append(Instruction(rng.choice(JREL), Jump(rng.randrange(b + 1, nblocks), True), line_number=line()))
            else: ins.append(Instruction(rng.choice(NOARGOPS), line_number=line()))
        blocks.append(tuple(ins))
    # table entries that no instruction uses (what decoding leaves in `_additional_args` after dead-code elimination, or
    # what a user lists by hand): they only have to end up in the tables; in particular unused *cells* shift every free
    # variable operand (seeded change C03-r5), and an additional line adds an entry after the last instruction
    extra = []
    if rng.random() < .35:
        if is_fn or cells or frees:
            extra += [Cellvar('u%d' % i) for i in range(rng.choice([0, 1, 1, 2, 3]))]
        extra += [Name('un%d' % i) for i in range(rng.choice([0, 0, 1, 2]))]
        extra += [Constant(rng.choice([None, 'unused', 7.5, (1, 2)]))] * rng.choice([0, 0, 1])
        if localnames or is_fn:
            extra += [Varname('uv%d' % i) for i in range(rng.choice([0, 0, 1]))] if is_fn else []
        rng.shuffle(extra)
    kw = {}
    if rng.random() < .15 and (V310 or lines_mode != 'none-mix'):
        kw['_additional_line'] = cd.AdditionalLine(line=cur[0] + rng.choice([0, 1, 5]), additional_offsets=())
    d = CodeData(blocks=tuple(blocks), filename='<c03>', first_line_number=first, name='g', stacksize=rng.randrange(1, 5),
                 type=tp, freevars=tuple(frees), future_annotations=rng.random() < .2, _additional_args=tuple(extra), **kw)
    return d


def expected_view(d):
    return O.view(d, const_desc=lambda v: 'k' + ser.s_inner(v).replace(' ', '_'))


def c03_check(w, inp, d, expect_raise=False):
    w.stats['graphs'] += 1
    flat = [i for b in d.blocks for i in b]
    w.stats['instructions'] += len(flat)
    w.stats['jumps'] += sum(1 for i in flat if isinstance(i.arg, Jump))
    w.seen(ser.s_data(d))
    c, e = try_(d.to_code)
    m_encode(w, d, c, e)
    if expect_raise:
        if e is None:
            w.violation('C03:inconsistent-overrides-not-rejected', inp, {'names': list(c.co_names)[:8], 'consts': repr(c.co_consts)[:100]})
        else:
            w.stats['rejected_as_expected'] += 1
        return
    if e is not None:
        key = 'C03:to_code-raises:' + type(e).__name__
        if isinstance(e, TypeError) and not V310 and any(i.line_number is None for i in flat):
            key = 'C03:none-line-before-3.10'
        w.violation(key, inp, {'error': O.exc_str(e)})
        return
    det = {}
    rd, e = try_(O.reading, c, True, lambda v: 'k' + ser.s_inner(v).replace(' ', '_'))
    if e is not None:
        w.violation('C03:encoded-code-not-readable', inp, {'error': O.exc_str(e)})
        return
    want = expected_view(d)
    fd = O.first_diff(want, rd)
    if fd is not None:
        k, x, y = fd
        kind = 'length' if x is None or y is None else ('opcode' if x[0] != y[0] else 'operand' if x[1] != y[1] else 'line')
        key = 'C03:encoded-%s-differs' % kind
        ncell = len(set(i.arg.cellvar for i in flat if isinstance(i.arg, Cellvar)))
        nfree = len(d.freevars)
        if kind == 'operand' and x is not None and x[1].startswith('J') and ncell and any(isinstance(i.arg, Freevar) for i in flat) and ncell + nfree > 255:
            key = 'C03:freevar-index-grows-after-jump-relaxation'
        w.violation(key, inp, {'index': k, 'data_says': x, 'code_says': y})
        return
    # header
    if c.co_freevars != d.freevars or c.co_name != d.name or c.co_filename != d.filename or c.co_firstlineno != d.first_line_number or c.co_stacksize != d.stacksize:
        w.violation('C03:header-field-differs', inp, {})
    if isinstance(d.type, Function):
        fn = types.FunctionType(c, {}, 'g', None, tuple(make_cell() for _ in c.co_freevars) or None)
        sig, e = try_(inspect.signature, fn)
        if e is None:
            got = [(n, p.kind.name) for n, p in sig.parameters.items()]
            exp = [(n, k.name) for n, k in d.type.args.parameters.items()]
            if got != exp:
                w.violation('C03:signature-differs', inp, {'data_says': exp, 'code_says': got})
        if fn.__doc__ != d.type.docstring:
            w.violation('C03:docstring-differs', inp, {'data_says': d.type.docstring, 'code_says': fn.__doc__})
        kind = ('GENERATOR' if inspect.isgeneratorfunction(fn) else 'COROUTINE' if inspect.iscoroutinefunction(fn)
                else 'ASYNC_GENERATOR' if inspect.isasyncgenfunction(fn) else None)
        if kind != d.type.type:
            w.violation('C03:function-kind-differs', inp, {'data_says': d.type.type, 'code_says': kind})
        if (c.co_flags & 3) != 3:
            w.violation('C03:function-flags-missing', inp, {'flags': hex(c.co_flags)})
    elif c.co_flags & 0x2af:
        w.violation('C03:non-function-has-function-flags', inp, {'flags': hex(c.co_flags)})
    # decode again: equal up to normalization on the flattened stream
    d2, e = try_(CodeData.from_code, c)
    m_decode(w, c, d2, e)
    if e is not None:
        w.violation('C03:encoded-code-does-not-decode', inp, {'error': O.exc_str(e)})
        return
    n1, n2 = d.normalize(), d2.normalize()
    if expected_view(n1) != expected_view(n2) or (n1.type, n1.freevars, n1.name, n1.filename, n1.first_line_number, n1.stacksize, n1.future_annotations) != \
            (n2.type, n2.freevars, n2.name, n2.filename, n2.first_line_number, n2.stacksize, n2.future_annotations):
        w.violation('C03:redecoded-data-differs', inp, {})
    w.sample({'blocks': len(d.blocks), 'instructions': len(flat), 'names': len(c.co_names), 'consts': len(c.co_consts), 'code_len': len(c.co_code)})


def make_cell():
    return (lambda x: (lambda: x).__closure__[0])(0)


def inconsistent(rng):
    """decoded-looking data whose overrides leave a gap or collide"""
    k = rng.randrange(10)
    base = dict(filename='<c03>', first_line_number=1, name='g', stacksize=1)
    L = lambda *ins: (tuple(Instruction(*a, line_number=1) for a in ins),)
    if k == 0: return CodeData(blocks=L(('LOAD_NAME', Name('a', rng.choice([1, 2, 7]))), ('RETURN_VALUE',)), **base)
    if k == 1: return CodeData(blocks=L(('LOAD_CONST', Constant(1, 0)), ('LOAD_CONST', Constant(True, 0)), ('RETURN_VALUE',)), **base)
    if k == 2: return CodeData(blocks=L(('LOAD_CONST', Constant(0.0, 0)), ('LOAD_CONST', Constant(-0.0, 0)), ('RETURN_VALUE',)), **base)
    if k == 3: return CodeData(blocks=L(('LOAD_NAME', Name('a', 0)), ('LOAD_NAME', Name('b', 0)), ('RETURN_VALUE',)), **base)
    # an entry pinned to position p, then an un-pinned entry when the table holds exactly p entries (it would be numbered
    # p as well), the lower positions filled by later overrides so that no gap remains (seeded change C03-r3)
    if k == 5: return CodeData(blocks=L(('LOAD_CONST', Constant('a', 1)), ('LOAD_CONST', Constant('b')), ('LOAD_CONST', Constant('z', 0)), ('RETURN_VALUE',)), **base)
    if k == 6: return CodeData(blocks=L(('LOAD_NAME', Name('a', 1)), ('LOAD_NAME', Name('b')), ('LOAD_NAME', Name('z', 0)), ('RETURN_VALUE',)), **base)
    if k == 7: return CodeData(blocks=L(('LOAD_FAST', Varname('a', 2)), ('LOAD_FAST', Varname('p')), ('LOAD_FAST', Varname('q')), ('LOAD_FAST', Varname('b')),
                                        ('LOAD_FAST', Varname('z', 3)), ('RETURN_VALUE',)), type=Function(), **base)
    if k == 8: return CodeData(blocks=L(('LOAD_CONST', Constant(0.0, 1)), ('LOAD_CONST', Constant(-0.0)), ('LOAD_CONST', Constant(None, 0)), ('RETURN_VALUE',)), **base)
    if k == 9:
        p = rng.randrange(1, 6)
        ins = [('LOAD_CONST', Constant('pinned', p))] + [('LOAD_CONST', Constant('free%d' % i)) for i in range(p + 1)]
        ins += [('LOAD_CONST', Constant('fill%d' % i, i)) for i in range(0)] + [('RETURN_VALUE',)]
        return CodeData(blocks=L(*ins), **base)
    return CodeData(blocks=L(('LOAD_CONST', Constant('x', 3)), ('LOAD_CONST', Constant('y', None)), ('RETURN_VALUE',)), **base)


def edited_decoded(rng):
    """decode a real function, then drop an instruction / the unused-entry list, as a user edit would"""
    src = "def f(a):\n    x = len(a)\n    y = [1, 2.5, 'k']\n    return x, y, None\n"
    c = [k for k in corpus.all_code(compile(src, '<c03>', 'exec')) if k.co_name == 'f'][0]
    d = CodeData.from_code(c)
    flat = list(d.blocks[0])
    if rng.random() < .3:
        # decoded data in which a constant is pinned (the unused None sits at position 0); the user adds a new constant
        c = (lambda: 'a').__code__
        d = CodeData.from_code(c)
        flat = list(d.blocks[0])
        flat.insert(1, Instruction('LOAD_CONST', Constant(rng.choice(['b', 1, 1.0, b'a'])), line_number=flat[0].line_number))
        flat.insert(2, Instruction('POP_TOP', line_number=flat[0].line_number))
        return dataclasses.replace(d, blocks=(tuple(flat),))
    i = rng.randrange(len(flat) - 1)
    del flat[i]
    return dataclasses.replace(d, blocks=(tuple(flat),), _additional_args=() if rng.random() < .5 else d._additional_args)


def freevar_bump_case():
    cells = ['c%d' % i for i in range(10)]
    frees = ['f%d' % i for i in range(300)]
    ins = [Instruction('LOAD_DEREF', Cellvar(n), line_number=1) for n in cells]
    ins += [Instruction('LOAD_DEREF', Freevar(frees[250]), line_number=1)] * 2
    b0 = tuple(ins + [Instruction('JUMP_ABSOLUTE', Jump(1, False), line_number=1)])
    b1 = (Instruction('RETURN_VALUE', line_number=1),)
    return CodeData(blocks=(b0, b1), filename='<c03>', first_line_number=1, name='g', stacksize=1, type=Function(), freevars=tuple(frees))


def c03_input(w, inp):
    rng = random.Random(inp['subseed'])
    if inp['kind'] == 'graph':
        c03_check(w, inp, gen_data(rng, inp.get('tier', 'quick')))
    elif inp['kind'] == 'inconsistent':
        c03_check(w, inp, inconsistent(rng), expect_raise=True)
    elif inp['kind'] == 'edited':
        d = edited_decoded(rng)
        c, e = try_(d.to_code)
        m_encode(w, d, c, e)
        w.stats['edited'] += 1
        if e is None:
            # whatever was emitted has to be readable and consistent with the data
            rd, e2 = try_(O.reading, c, True, lambda v: 'k' + ser.s_inner(v).replace(' ', '_'))
            if e2 is not None or O.first_diff(expected_view(d), rd) is not None:
                w.violation('C03:edited-data-encodes-to-code-that-says-something-else', inp, {'error': O.exc_str(e2) if e2 else None})
    elif inp['kind'] == 'freevar-bump':
        c03_check(w, inp, freevar_bump_case())
    elif inp['kind'] == 'none-line':
        c03_check(w, inp, CodeData(blocks=((Instruction('LOAD_CONST', Constant(1)), Instruction('RETURN_VALUE')),), filename='<c03>', first_line_number=1, name='g', stacksize=1))


def run_C03(w):
    rng = random.Random(w.seed * 53 + w.shard)
    n = {'quick': 1600, 'search': 2400}.get(w.tier, 40000) // w.nshards
    if w.shard == 0:
        w.guard(c03_input, w, {'kind': 'freevar-bump', 'subseed': 0})
        w.guard(c03_input, w, {'kind': 'none-line', 'subseed': 0})
    for i in range(n):
        sub = rng.randrange(1 << 30)
        r = rng.random()
        kind = 'graph' if r < .9 else 'inconsistent' if r < .95 else 'edited'
        w.guard(c03_input, w, {'kind': kind, 'subseed': sub, 'tier': w.tier})


props.RUN['C03'] = run_C03
for _k in ('graph', 'inconsistent', 'edited', 'freevar-bump', 'none-line'):
    props.REPLAY[_k] = lambda w, prop, inp: c03_input(w, inp)
