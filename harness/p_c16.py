# 3.7-compatible.  C16: the command line prints what the API returns for the same program.
import sys, os, subprocess, json, random, tempfile, itertools, dis
import ser, corpus, oracles as O
import props
from props import try_, VS, V
import code_data
from code_data import *          # noqa: the names the printed repr refers to
from code_data import CodeData

MAIN = 'from code_data._cli import main; main()'
FLAGS = ['--dis', '--dis-after', '--source', '--no-normalize', '--json']


def run_cli(args, cwd=None):
    env = dict(os.environ, PYTHONIOENCODING='utf-8')
    p = subprocess.run([sys.executable, '-c', MAIN] + args, stdout=subprocess.PIPE, stderr=subprocess.PIPE, env=env, cwd=cwd, timeout=120)
    return p.returncode, p.stdout.decode('utf-8', 'replace'), p.stderr.decode('utf-8', 'replace')


def expected_code(kind, src, path):
    if kind == 'e':
        return compile(eval(src, {'linesep': os.linesep}), '<string>', 'exec')
    if kind == 'c':
        return compile(src.replace('\\n', '\n'), '<string>', 'exec')
    if kind == 'file':
        return compile(src, path, 'exec')
    raise ValueError(kind)


def split_sections(out, flags, src_text):
    """cut stdout into the sections main() prints, in order"""
    rest = out
    sec = {}
    if '--source' in flags and src_text is not None:
        # the plain-print fallback prints the source followed by a newline
        if not rest.startswith(src_text + '\n'):
            return None
        rest = rest[len(src_text) + 1:]
    i = rest.find('CodeData(')
    # the repr line is the first line that starts with "CodeData(" at column 0 after the --dis section
    lines = rest.split('\n')
    k = next((n for n, l in enumerate(lines) if l.startswith('CodeData(')), None)
    if k is None:
        return None
    sec['dis'] = '\n'.join(lines[:k])
    sec['repr'] = lines[k]
    after = lines[k + 1:]
    if '--json' in flags:
        # JSON.from_data(..., indent=2) : a block from "{" to the matching "}" at column 0
        if not after or after[0] != '{':
            return None
        end = next((n for n, l in enumerate(after) if l == '}'), None)
        if end is None:
            return None
        sec['json'] = '\n'.join(after[:end + 1])
        after = after[end + 1:]
    sec['dis_after'] = '\n'.join(after)
    return sec


def dis_lines(text):
    """(opname, resolved argument) of every instruction line in a dis listing, recursive listings included"""
    out = []
    for l in text.split('\n'):
        parts = l.split()
        # strip line number / >> markers: find the first token that is an opname
        for n, t in enumerate(parts):
            if t in dis.opmap:
                arg = ' '.join(parts[n + 1:])
                if '(' in arg:
                    arg = arg[arg.index('('):]
                    if arg.startswith('(<code object'):
                        arg = '(<code object>)'
                    if arg.startswith('(to '):
                        arg = '(to)'
                else:
                    arg = ''
                out.append((t, arg))
                break
    return out


def c16_input(w, inp):
    kind, src, flags = inp['source_kind'], inp['src'], inp['flags']
    tmp = None
    try:
        if kind == 'file':
            tmp = tempfile.mkdtemp(prefix='c16_')
            path = os.path.join(tmp, 'prog.py')
            with open(path, 'w', encoding='utf-8') as f:
                f.write(src)
            args = [path]
        elif kind == 'c':
            path = None; args = ['-c', src]
        elif kind == 'e':
            path = None; args = ['-e', src]
        elif kind == 'm':
            # -m: a module found by the import system; its loader may have the code but not the text (frozen modules, a
            # bare .pyc): then there is nothing for --source to show, and everything else is as for any program
            # (seeded change C16-r8)
            path = None; args = ['-m', src]
            if inp.get('sourceless'):
                import py_compile
                tmp = tempfile.mkdtemp(prefix='c16_')
                with open(os.path.join(tmp, src + '.py'), 'w', encoding='utf-8') as f:
                    f.write(inp['text'])
                py_compile.compile(os.path.join(tmp, src + '.py'), cfile=os.path.join(tmp, src + '.pyc'), doraise=True)
                os.remove(os.path.join(tmp, src + '.py'))
        rc, out, err = run_cli(args + flags, cwd=tmp if kind == 'm' else None)
        w.stats['invocations'] += 1
        w.seen((kind, src, tuple(flags)))
        if kind == 'm':
            def load():
                import importlib.util, importlib.machinery
                if inp.get('sourceless'):
                    ld = importlib.machinery.SourcelessFileLoader(src, os.path.join(tmp, src + '.pyc'))
                else:
                    ld = importlib.util.find_spec(src).loader
                return ld.get_code(src), ld.get_source(src)
            r, e = try_(load)
            code, m_text = r if e is None else (None, None)
        else:
            code, e = try_(expected_code, kind, src, path)
        if e is not None:
            w.stats['invalid_program'] += 1      # not judged
            return
        d = CodeData.from_code(code)
        want = d if '--no-normalize' in flags else d.normalize()
        if rc != 0:
            w.violation('C16:valid-program-nonzero-exit', inp, {'exit': rc, 'stderr': err[-300:]})
            return
        src_text = m_text if kind == 'm' else eval(src, {'linesep': os.linesep}) if kind == 'e' else (src.replace('\\n', '\n') if kind == 'c' else src)
        sec = split_sections(out, flags, src_text)
        if sec is None:
            w.violation('C16:output-not-in-expected-shape', inp, {'stdout': out[:400]})
            return
        # what is printed is the text of the API's value: compared as text first (exact; repr() itself cannot express the
        # sign of a complex zero or of a NaN, so evaluating it back would not be), and only when the text is laid out
        # differently (rich installed) by evaluating it
        if sec['repr'].strip() == repr(want):
            w.stats['printed_text_equals_repr'] += 1
        else:
            nan, inf = float('nan'), float('inf')
            got, e = try_(eval, sec['repr'], dict(vars(code_data), nan=nan, inf=inf, nanj=complex(0, nan), infj=complex(0, inf), Ellipsis=Ellipsis))
            if e is not None:
                w.violation('C16:printed-repr-does-not-evaluate', inp, {'error': O.exc_str(e), 'repr': sec['repr'][:300]})
                return
            if got != want or repr(got) != repr(want):
                w.violation('C16:printed-data-differs-from-api', inp, {'first_difference': data_diff(want, got)})
        if '--json' in flags:
            j, e = try_(json.loads, sec['json'])
            y, e2 = (None, e) if e is not None else try_(CodeData.from_json_data, j)
            if e2 is not None:
                w.violation('C16:printed-json-does-not-load', inp, {'error': O.exc_str(e2)})
            elif y != want:
                w.violation('C16:printed-json-differs-from-api', inp, {'first_difference': data_diff(want, y)})
        if '--dis' not in flags and sec['dis'].strip():
            w.violation('C16:unexpected-output-before-data', inp, {'text': sec['dis'][:200]})
        if '--dis-after' in flags:
            a, b = dis_lines(sec['dis']), dis_lines(sec['dis_after'])
            if '--dis' in flags and a != b:
                # after normalization nested code objects that no instruction references are gone (C05 allows that):
                # the listing is then the same with those whole listings left out
                it = iter(a)
                ok = '--no-normalize' not in flags and all(x in it for x in b) and bool(b)
                if not ok:
                    fd = O.first_diff(a, b)
                    w.violation('C16:dis-after-differs-from-dis', inp, {'index': fd[0], 'dis': fd[1], 'dis_after': fd[2]})
            if not dis_lines(sec['dis_after']):
                w.violation('C16:dis-after-prints-nothing', inp, {})
        elif sec['dis_after'].strip():
            w.violation('C16:unexpected-output-after-data', inp, {'text': sec['dis_after'][:200]})
        w.sample({'args': args[:1] + ['<src>'] + flags if kind != 'file' else ['<file>'] + flags})
    finally:
        if tmp:
            import shutil
            shutil.rmtree(tmp, ignore_errors=True)


def data_diff(x, y):
    a, b = ser.s_data(x).split(' '), ser.s_data(y).split(' ')
    k = next((i for i, (p, q) in enumerate(zip(a, b)) if p != q), min(len(a), len(b)))
    return {'at': k, 'api': ' '.join(a[max(0, k - 4):k + 4]), 'printed': ' '.join(b[max(0, k - 4):k + 4])}


def usage_input(w, inp):
    """0 or >= 2 sources: usage error (exit status 2); exactly one: accepted"""
    tmp = tempfile.mkdtemp(prefix='c16_')
    try:
        path = os.path.join(tmp, 'p.py')
        with open(path, 'w') as f:
            f.write(inp.get('file_src', 'x = 1\n'))
        args = []
        given = 0
        for k in inp['sources']:
            given += 1
            if k == 'file': args.append(path)
            elif k == 'c': args += ['-c', inp['c']]
            elif k == 'e': args += ['-e', inp['e']]
            elif k == 'm': args += ['-m', inp['m']]
        rc, out, err = run_cli(args + inp.get('flags', []))
        w.stats['usage_invocations'] += 1
        w.seen(('usage', tuple(inp['sources']), inp.get('c'), inp.get('e')))
        w.op('M', 'cliaccepts %s' % ' '.join('1' if k in inp['sources'] else '0' for k in ('file', 'c', 'm', 'e')),
             'OK ' + ('usage-error' if rc == 2 else 'accepted'))
        if given == 1 and rc == 2:
            w.violation('C16:single-source-rejected', inp, {'stderr': err[-200:]})
        if given != 1 and rc != 2:
            w.violation('C16:not-exactly-one-source-accepted', inp, {'exit': rc, 'stdout': out[:100]})
    finally:
        import shutil
        shutil.rmtree(tmp, ignore_errors=True)


PROGRAMS = ["x = 1\n", "", "def f(a, *b, c=1, **d):\n    'doc'\n    return a\n", "class C:\n    def m(self):\n        return super().m()\n",
            "x = [lambda: 0, lambda: 0]\n", "a = (1e999, -0.0, 2**70, b'x', ..., 'é')\n", "for i in y:\n    if i: break\nelse:\n    z = 1\n",
            "def fn():\n    return\n    def i():\n        i()\n", "async def c(x):\n    await x\n", "y =" + "-x" * 130 + "\nz = y\n"]


def run_C16(w):
    rng = random.Random(w.seed * 17 + w.shard)
    inputs = []
    progs = list(PROGRAMS)
    # programs whose text must reach the compiler untouched: whitespace-only lines, indentation and tabs inside string
    # literals, trailing blanks, blank lines before the first statement (seeded change C16-r3)
    progs += ["s = '''usage:\n    \n  tool\n\t\nend'''\n", "def f():\n    '''doc\n    \n      indented\n    '''\n    return 1\n",
              "\n\nx = 1   \n\n\ny = '  '\nz = '''\n \n'''\n", "class C:\n    ''' \n\t\n '''\n    a = '''\n        \n'''\n"]
    # programs whose text contains a backslash followed by `n` (an escape inside a string literal, a raw string, a
    # doubled backslash): only -c may turn that pair into a newline (seeded change C16-r5)
    progs += ['greeting = "hello\\nworld"\n', "pat = r'a\\nb'\nq = 'tab\\there'\n", 'def f():\n    """line one\\nline two"""\n    return "x\\\\ny"\n',
              "s = b'\\n' + b'\\\\n'\n"]
    # programs whose first character means something to an argument parser ('@' = "read arguments from this file" once
    # fromfile_prefix_chars is set): a decorated definition as the first statement (seeded change C16-r7)
    progs += ["@staticmethod\ndef f(x):\n    return x\n", "@d\nclass C:\n    pass\n", "@a.b(1)\n@c\nasync def g():\n    pass\n"]
    for _, s in corpus.generated_sources(w.seed, 6 if w.tier != 'thorough' else 60):
        if len(s) < 3000 and '\\' not in s:
            progs.append(s)
    combos = [list(c) for n in range(len(FLAGS) + 1) for c in itertools.combinations(FLAGS, n)]
    for pi, src in enumerate(progs):
        for kind in ('file', 'c', 'e'):
            text = repr(src) if kind == 'e' else src
            if kind == 'c' and '\\n' in src:
                continue
            sel = combos if (w.tier == 'thorough' or pi < 2) else rng.sample(combos, 3)
            for fl in sel:
                inputs.append({'kind': 'cli', 'source_kind': kind, 'src': text, 'flags': fl})
    # -e takes an *expression*: `linesep` and the builtins must be usable anywhere in it, also inside generator
    # expressions, comprehensions and lambdas, whose bodies look names up in the globals (seeded change C16-r6)
    EXPRS = ["'a = 1' + linesep + 'b = 2'", "linesep.join(['x = 1', 'y = 2'])", "''.join(s + linesep for s in ['a = 1', 'b = 2'])",
             "(lambda: 'x = 1' + linesep)()", "[l + linesep for l in ['p = 1']][0]", "'x = %d' % len('abc')", "chr(120) + ' = 1'",
             "str.join(linesep, map(str, ['a = 1', 'b = a']))", "{k: 'v = 1' + linesep for k in 'k'}['k']", "'def f():' + linesep + '    return 1' + linesep"]
    for ei, ex in enumerate(EXPRS):
        for fl in (combos if w.tier == 'thorough' else rng.sample(combos, 2)):
            inputs.append({'kind': 'cli', 'source_kind': 'e', 'src': ex, 'flags': fl})
    for mod, extra in (('__hello__', {}), ('json.scanner', {}), ('c16sourceless', {'sourceless': True, 'text': "def f(a, b=2):\n    return [a, b]\nx = f(1)\n"})):
        for fl in (combos if w.tier == 'thorough' else [[], ['--source'], ['--json', '--source'], ['--dis', '--dis-after', '--no-normalize']]):
            inputs.append(dict({'kind': 'cli', 'source_kind': 'm', 'src': mod, 'flags': fl}, **extra))
    # usage: every subset of the four sources, with empty and non-empty values
    for n in range(5):
        for srcs in itertools.combinations(['file', 'c', 'm', 'e'], n):
            for cval, evalv in (('x = 1', "'y = 2'"), ('', "''"), ('', "'y = 2'"), ('x = 1', "''"), ("'json.scanner'", "'json.scanner'"), ('json.scanner', "'json.scanner'"), ('json.scanner', 'json.scanner')):
                inputs.append({'kind': 'cliusage', 'sources': list(srcs), 'c': cval, 'e': evalv, 'm': 'json.scanner', 'flags': rng.choice([[], ['--json']])})
    for i, inp in enumerate(inputs):
        if i % w.nshards == w.shard:
            w.guard(c16_input if inp['kind'] == 'cli' else usage_input, w, inp)


props.RUN['C16'] = run_C16
props.REPLAY['cli'] = lambda w, prop, inp: c16_input(w, inp)
props.REPLAY['cliusage'] = lambda w, prop, inp: usage_input(w, inp)
