#!/usr/bin/env python3
"""Translator for the declarative parts:  extract.py <repo> <out.lean>
Reads the *current* source of code_data (by ast) and writes CDV/Extracted.lean: the literal constants the
Lean model and its theorems are stated over.  Every site that the model identifies with one name must
carry the same value in the source; otherwise the model cannot express the source and extraction fails
(exit 1) — the check then treats the proof tie as broken.  'DRIFT …' lines report functions of the
anchored modules that have no counterpart in the model map."""
import ast, sys, os, json

repo, out = sys.argv[1], sys.argv[2]
pkg = os.path.join(repo, 'code_data')
problems = []


def parse(name):
    with open(os.path.join(pkg, name)) as f:
        return ast.parse(f.read())


def func(tree, name):
    for n in ast.walk(tree):
        if isinstance(n, ast.FunctionDef) and n.name == name:
            return n
    problems.append('function %s not found' % name)
    return None


def num(n):
    """literal int value of an expression like 254, -127, (2**53)-1, -(2**53)+1"""
    try:
        v = eval(compile(ast.Expression(n), '<lit>', 'eval'), {'__builtins__': {}})
        if isinstance(v, int) and not isinstance(v, bool):
            return v
    except Exception:
        pass
    return None


def ifexp_values(fn, test_name='is_linetable'):
    """all `A if is_linetable else B` with integer literals inside fn -> list of (A, B)"""
    out = []
    for n in ast.walk(fn):
        if isinstance(n, ast.IfExp) and isinstance(n.test, ast.Name) and n.test.id == test_name:
            a, b = num(n.body), num(n.orelse)
            if a is not None and b is not None:
                out.append((a, b))
    return out


def same(label, values):
    vs = sorted(set(values))
    if len(vs) != 1:
        problems.append('%s: sites disagree or are missing: %r' % (label, values))
        return None
    return vs[0]


lm = parse('_line_mapping.py')
collapse, expand = func(lm, 'collapse_items'), func(lm, 'expand_items')
vals = {}
if collapse and expand:
    pairs = ifexp_values(collapse) + ifexp_values(expand)
    pos = [p for p in pairs if p[0] > 0]
    neg = [p for p in pairs if p[0] < 0]
    vals['maxBytecodeLinetable'] = same('max bytecode delta (linetable)', [p[0] for p in pos])
    vals['maxBytecodeLnotab'] = same('max bytecode delta (lnotab)', [p[1] for p in pos])
    vals['minLineLinetable'] = same('min line delta (linetable)', [p[0] for p in neg])
    vals['minLineLnotab'] = same('min line delta (lnotab)', [p[1] for p in neg])
    # the positive line limit: every comparison / assignment / augmented assignment with a positive literal
    # applied to a line offset inside the two functions
    lits = []
    for fn in (collapse, expand):
        for n in ast.walk(fn):
            if isinstance(n, ast.Compare) and len(n.comparators) == 1:
                v = num(n.comparators[0])
                src = ast.dump(n.left)
                if v is not None and v > 1 and 'line_offset' in src and not isinstance(n.comparators[0], ast.IfExp):
                    lits.append(v)
            if isinstance(n, ast.AugAssign) and isinstance(n.target, ast.Name) and n.target.id == 'line_offset':
                v = num(n.value)
                if v is not None:
                    lits.append(v)
            if isinstance(n, ast.keyword) and n.arg == 'line_offset':
                v = num(n.value)
                if v is not None and v > 1:
                    lits.append(v)
    vals['maxLine'] = same('max line delta', lits)
    nol = []
    for fn in (collapse, expand):
        for n in ast.walk(fn):
            if isinstance(n, ast.Compare) and len(n.comparators) == 1 and isinstance(n.ops[0], ast.Eq):
                v = num(n.comparators[0])
                if v is not None and v < -1:
                    nol.append(v)
            if isinstance(n, ast.IfExp) and isinstance(n.test, ast.Compare) and isinstance(n.test.ops[0], ast.Is):
                v = num(n.body)
                if v is not None and v < -1:
                    nol.append(v)
    vals['noLine'] = same('no-line marker', nol)

js = parse('_json_data.py')
mn = mx = None
for n in ast.walk(js):
    if isinstance(n, ast.Assign) and isinstance(n.targets[0], ast.Tuple) and \
            [getattr(t, 'id', None) for t in n.targets[0].elts] == ['MIN_INTEGER', 'MAX_INTEGER'] and isinstance(n.value, ast.Tuple):
        mn, mx = num(n.value.elts[0]), num(n.value.elts[1])
if mn is None or mx is None:
    problems.append('MIN_INTEGER / MAX_INTEGER not found')
vals['MIN_INTEGER'], vals['MAX_INTEGER'] = mn, mx

bl = parse('_blocks.py')
isz = func(bl, '_instrsize')
limits = []
if isz:
    for n in ast.walk(isz):
        if isinstance(n, ast.Compare) and isinstance(n.ops[0], ast.LtE):
            v = num(n.comparators[0])
            if v is not None:
                limits.append(v)
if len(limits) != 3:
    problems.append('_instrsize: expected three <= limits, found %r' % limits)
    limits = [None, None, None]
vals['instrsizeLimit1'], vals['instrsizeLimit2'], vals['instrsizeLimit3'] = limits
import ctypes
vals['cIntBits'] = ctypes.sizeof(ctypes.c_int()) * 8

# ---- the published JSON schema (code_data/__init__.py: _definitions, JSON_SCHEMA) -> CDV/ExtractedSchema.lean
SCHEMA_KEYS = {'type', 'enum', 'required', 'properties', 'items', 'anyOf', '$ref'}
IGNORED_KEYS = {'description', 'default', 'title'}          # annotations: no effect on validation
JTY = {'object', 'array', 'string', 'integer', 'number', 'boolean', 'null'}
schema_problems = []


def lit(node):
    """python value of a literal ast node; names/attributes (the docstrings used as descriptions) become None"""
    if isinstance(node, ast.Constant):
        return node.value
    if isinstance(node, ast.Dict):
        return {lit(k): lit(v) for k, v in zip(node.keys, node.values)}
    if isinstance(node, (ast.List, ast.Tuple)):
        return [lit(x) for x in node.elts]
    return None


def lean_str(x):
    return '"' + x.replace('\\', '\\\\').replace('"', '\\"') + '"'


def lean_schema(sc, where):
    if not isinstance(sc, dict):
        schema_problems.append('%s: not a schema object' % where); return '.anyOf []'
    for k in sc:
        if k not in SCHEMA_KEYS and k not in IGNORED_KEYS:
            schema_problems.append('%s: keyword %r is not modelled' % (where, k))
    if '$ref' in sc:
        ref = sc['$ref']
        if not (isinstance(ref, str) and ref.startswith('#/definitions/')) or set(sc) - {'$ref'} - IGNORED_KEYS:
            schema_problems.append('%s: unsupported $ref %r' % (where, ref)); return '.anyOf []'
        return '.ref ' + lean_str(ref[len('#/definitions/'):])
    if 'anyOf' in sc:
        if set(sc) - {'anyOf'} - IGNORED_KEYS:
            schema_problems.append('%s: anyOf next to other keywords' % where)
        return '.anyOf [' + ', '.join(lean_schema(a, '%s/anyOf[%d]' % (where, i)) for i, a in enumerate(sc['anyOf'])) + ']'
    ty = sc.get('type')
    if ty is not None and ty not in JTY:
        schema_problems.append('%s: type %r' % (where, ty)); ty = None
    enum = sc.get('enum')
    if enum is not None and not all(isinstance(e, str) for e in enum):
        schema_problems.append('%s: non-string enum' % where); enum = None
    req = sc.get('required', [])
    props = sc.get('properties', {})
    items = sc.get('items')
    return '.node %s %s [%s] [%s] %s' % (
        '(some .%s)' % ty if ty else 'none',
        '(some [%s])' % ', '.join(lean_str(e) for e in enum) if enum is not None else 'none',
        ', '.join(lean_str(r) for r in req),
        ', '.join('(%s, %s)' % (lean_str(k), lean_schema(v, where + '/' + k)) for k, v in props.items()),
        '(some (%s))' % lean_schema(items, where + '/items') if items is not None else 'none')


init = parse('__init__.py')
defs_node = root_node = None
for n in init.body:
    if isinstance(n, (ast.Assign, ast.AnnAssign)):
        tgt = n.targets[0] if isinstance(n, ast.Assign) else n.target
        if getattr(tgt, 'id', None) == '_definitions': defs_node = n.value
        if getattr(tgt, 'id', None) == 'JSON_SCHEMA': root_node = n.value
schema_text = None
if not isinstance(defs_node, ast.Dict) or not isinstance(root_node, ast.Dict):
    problems.append('JSON_SCHEMA / _definitions not found as dict displays')
else:
    defs = lit(defs_node)
    root = lit(root_node)
    rootref = root.get('$ref')
    if not (isinstance(rootref, str) and rootref.startswith('#/definitions/')):
        problems.append('JSON_SCHEMA: root is not a $ref into definitions')
    else:
        body = ',\n  '.join('(%s, %s)' % (lean_str(k), lean_schema(v, k)) for k, v in defs.items())
        schema_text = ('import CDV.SchemaDef\n'
                       '/-! GENERATED by harness/extract.py from code_data/__init__.py (_definitions, JSON_SCHEMA) — do not edit. -/\n'
                       'namespace CDV.Extracted\n\n'
                       'def jsonDefs : List (String × Schema) := [\n  ' + body + ']\n\n'
                       'def jsonRoot : Schema := .ref ' + lean_str(rootref[len('#/definitions/'):]) + '\n\nend CDV.Extracted\n')
    problems.extend(schema_problems)

# model map drift: functions defined in the anchored modules vs. the functions the model knows about
MODEL_MAP = json.load(open(os.path.join(os.path.dirname(os.path.abspath(__file__)), 'model_map.json')))
for mod, known in MODEL_MAP.items():
    tree = parse(mod)
    have = set()
    for n in ast.walk(tree):
        if isinstance(n, (ast.FunctionDef, ast.AsyncFunctionDef)):
            have.add(n.name)
    for f in sorted(have - set(known)):
        print('DRIFT %s: function %s is not in the model map' % (mod, f))
    for f in sorted(set(known) - have):
        print('DRIFT %s: function %s of the model map no longer exists' % (mod, f))

if problems or any(v is None for v in vals.values()):
    for p in problems:
        print('EXTRACT-PROBLEM', p)
    print('EXTRACT-FAILED: Extracted.lean left unchanged')
    sys.exit(1)

INT = {'minLineLinetable', 'minLineLnotab', 'maxLine', 'noLine', 'MIN_INTEGER', 'MAX_INTEGER',
       'instrsizeLimit1', 'instrsizeLimit2', 'instrsizeLimit3'}
lines = ['/-! GENERATED by harness/extract.py from the working tree of the repository — do not edit.',
         '    Literal constants of the implementation that the model and the theorems are stated over. -/',
         'namespace CDV.Extracted', '']
groups = [('code_data/_line_mapping.py', ['maxBytecodeLinetable', 'maxBytecodeLnotab', 'minLineLinetable', 'minLineLnotab', 'maxLine', 'noLine']),
          ('code_data/_json_data.py', ['MIN_INTEGER', 'MAX_INTEGER']),
          ('code_data/_blocks.py', ['instrsizeLimit1', 'instrsizeLimit2', 'instrsizeLimit3', 'cIntBits'])]
for title, names in groups:
    lines.append('-- ' + title)
    for n in names:
        lines.append('abbrev %s : %s := %d' % (n, 'Int' if n in INT else 'Nat', vals[n]))
    lines.append('')
lines.append('end CDV.Extracted')
text = '\n'.join(lines) + '\n'
out_schema = os.path.join(os.path.dirname(out), 'ExtractedSchema.lean')
old_schema = open(out_schema).read() if os.path.exists(out_schema) else None
if old_schema != schema_text:
    with open(out_schema, 'w') as f:
        f.write(schema_text)
    print('EXTRACTED schema (changed)')
old = open(out).read() if os.path.exists(out) else None
if old != text:
    with open(out, 'w') as f:
        f.write(text)
    print('EXTRACTED (changed)')
else:
    print('EXTRACTED (unchanged)')
