#!/usr/bin/env python3
"""Regenerates /verif/MANIFEST.json from harness/propinfo.py (claimed checks) and properties.jsonl."""
import json, os, sys
HERE = os.path.dirname(os.path.abspath(__file__))
VERIF = os.path.dirname(HERE)
sys.path.insert(0, HERE)
import propinfo

props = [json.loads(l) for l in open(os.path.join(VERIF, 'properties.jsonl'))]
TECH = ("Lean 4 theorems about a hand-written executable model of the module (constants regenerated from /repo's source), "
        "tied to the code on every run by a differential correspondence against the implementation on real CPython 3.7-3.10, "
        "plus a direct oracle against CPython's own readers")
NOTE = ("Trusted: Lean kernel + propext/Classical.choice/Quot.sound (audited per run, no sorry/native_decide/own axioms); the hand-written model "
        "(Model tie: the compiled model must agree with the implementation on every operation of the run); harness/extract.py; the Spec layer "
        "(my rendering of CPython's readers, compared with the real interpreters on every run); the harness oracles.")
checks = []
na = []
for p in props:
    pid = p['id']
    info = propinfo.PROPS.get(pid)
    if not info or not info.get('claimed'):
        na.append({'property_id': pid, 'reason': (info or {}).get('na_reason', 'check under construction in this round: the machinery for this property is not yet complete enough to claim it')})
        continue
    checks.append({
        'property_id': pid,
        'quick_cmd': './check %s --tier quick' % pid,
        'thorough_cmd': './check %s --tier thorough' % pid,
        'evidence_file': 'evidence/%s.json' % pid,
        'replay_cmd_template': './check %s --replay {path}' % pid,
        'engine': 'lean4-model+correspondence',
        'technique': info.get('technique', TECH),
        'level_claimed': {'category': 'proof', 'text': info['level_text'], 'design_ref': 'DESIGN.md §6 ' + pid},
        'level_note': info.get('level_note', NOTE),
    })
m = {
    'version': 1,
    'setup_cmd': 'cd lean && lake build 2>&1 | tail -3',
    'hooks': {'guard': 'CODE_DATA_VERIF',
              'enable': 'no hooks: every observation point is reachable through the public API on the real interpreters (nothing in /repo is guarded)',
              'baseline_off_cmd': 'cd /repo && /venv/bin/python -m pytest -ra -q -p no:cacheprovider --timeout=900 --continue-on-collection-errors',
              'source_commits': [], 'add_only': True},
    'engines': [{'name': 'lean4-model+correspondence', 'path': 'lean/ harness/', 'serves_properties': [c['property_id'] for c in checks],
                 'kind_free_text': 'Lean 4 model + theorems (lean/CDV, lean/CDVProofs); compiled model driver (lean/Driver.lean) diffed against the implementation on real CPython 3.7-3.10 through a line protocol; direct oracles against dis / PyCode_Addr2Line / inspect'}],
    'checks': checks,
    'not_applicable': na,
    'notes': 'All /repo changes are unguarded "fix:" commits (see known_findings.json); no hooks were needed.',
}
json.dump(m, open(os.path.join(VERIF, 'MANIFEST.json'), 'w'), indent=1)
print('claimed:', [c['property_id'] for c in checks], 'not applicable:', [x['property_id'] for x in na])
