# Shim: the pyenv interpreters have no typing_extensions; pip vendors one.
from pip._vendor.typing_extensions import *  # noqa
from pip._vendor.typing_extensions import Literal, TypeAlias  # noqa
