#!/usr/bin/env python3
"""Evaluate one seeded change (made by a sub-agent that saw only the property text):

  seedeval.py <prop> <round> <dir-with patch.diff demo.py notes.json> [--worktree DIR]

 1. in a scratch worktree of /repo with the patch applied: the 30 pinned tests still pass (same ids), the package
    imports on 3.7-3.10, the demo exits non-zero with the change;
 2. the demo exits 0 against the unmodified /repo;
 3. the patch is applied to /repo, `./check <prop> --tier quick` is run, the patch is undone straight afterwards;
 4. seeded/<prop>-r<round>/{patch.diff, demo.py, meta.json} are written.
"""
import sys, os, json, subprocess, re, shutil, time, tempfile

VERIF = os.path.dirname(os.path.dirname(os.path.abspath(__file__)))
PYENV = '/root/.pyenv/versions'
INTERP = {'3.7': '3.7.16', '3.8': '3.8.18', '3.9': '3.9.18', '3.10': '3.10.13', '3.11': '3.11.7', '3.12': '3.12.1', '3.13': '3.13.0'}
SHIM = os.path.join(VERIF, 'harness', 'shim')


def sh(cmd, **kw):
    return subprocess.run(cmd, stdout=subprocess.PIPE, stderr=subprocess.STDOUT, universal_newlines=True, **kw)


def demo(tree, ver, path):
    env = dict(os.environ, PYTHONPATH=SHIM + ':' + tree, PYTHONDONTWRITEBYTECODE='1')
    p = sh([os.path.join(PYENV, INTERP[ver], 'bin', 'python'), path], env=env, cwd='/tmp', timeout=1800)
    return p.returncode, p.stdout[-1500:]


def pinned(tree):
    base = json.load(open('/root/.vp/BASELINE.json'))['stable_pass']
    env = dict(os.environ, PYTHONPATH=tree)
    p = sh(['/venv/bin/python', '-m', 'pytest', '-rA', '-q', '-p', 'no:cacheprovider', '--timeout=900',
            '--continue-on-collection-errors'], env=env, cwd=tree, timeout=3600)
    passed = set()
    for line in p.stdout.splitlines():
        m = re.match(r'PASSED (\S+?)::(.*)$', line)
        if m:
            mod = m.group(1)[:-3].replace('/', '.')
            passed.add(mod + '::' + m.group(2))
    missing = [t for t in base if t not in passed]
    tail = p.stdout.strip().splitlines()[-1] if p.stdout.strip() else ''
    return missing, tail


def main():
    prop, rnd, src = sys.argv[1], sys.argv[2], sys.argv[3]
    sid = '%s-r%s' % (prop, rnd)
    notes = json.load(open(os.path.join(src, 'notes.json')))
    patch = os.path.join(src, 'patch.diff')
    dem = os.path.join(src, 'demo.py')
    vers = ['.'.join(str(v).split('.')[:2]) for v in notes.get('interpreters', ['3.10'])]
    vers = [v for v in vers if v in INTERP] or ['3.10']
    res = {'property': prop, 'summary': notes.get('summary'), 'needs': notes.get('needs'),
           'interpreters': vers, 'files_changed': notes.get('files_changed'), 'confirmed': {}}
    c = res['confirmed']
    wt = tempfile.mkdtemp(prefix='seedeval-', dir='/tmp')
    os.rmdir(wt)
    try:
        assert sh(['git', '-C', '/repo', 'status', '--porcelain', '--untracked-files=no']).stdout.strip() == '', '/repo not clean'
        r = sh(['git', '-C', '/repo', 'worktree', 'add', '--detach', wt, 'HEAD'])
        assert r.returncode == 0, r.stdout
        r = sh(['git', '-C', wt, 'apply', patch])
        assert r.returncode == 0, 'patch does not apply: ' + r.stdout
        missing, tail = pinned(wt)
        c['baseline_tests_with_change'] = tail
        c['baseline_missing'] = missing
        imp = {}
        for v in ['3.7', '3.8', '3.9', '3.10']:
            p = sh([os.path.join(PYENV, INTERP[v], 'bin', 'python'), '-c', 'import code_data, code_data._cli'],
                   env=dict(os.environ, PYTHONPATH=SHIM + ':' + wt, PYTHONDONTWRITEBYTECODE='1'), cwd='/tmp')
            imp[v] = p.returncode
        c['imports'] = imp
        c['demo_with_change'] = {}
        c['demo_unmodified'] = {}
        for v in vers:
            rc, out = demo(wt, v, dem)
            c['demo_with_change'][v] = rc
            if rc != 0:
                c.setdefault('demo_output', out[-600:])
            rc0, _ = demo('/repo', v, dem)
            c['demo_unmodified'][v] = rc0
    finally:
        sh(['git', '-C', '/repo', 'worktree', 'remove', '--force', wt])
        shutil.rmtree(wt, ignore_errors=True)
    valid = (not c['baseline_missing'] and all(x == 0 for x in c['imports'].values())
             and any(x != 0 for x in c['demo_with_change'].values()) and all(x == 0 for x in c['demo_unmodified'].values()))
    c['valid'] = valid
    if valid:
        r = sh(['git', '-C', '/repo', 'apply', patch])
        assert r.returncode == 0, r.stdout
        try:
            t0 = time.time()
            p = sh([os.path.join(VERIF, 'check'), prop, '--tier', 'quick'], cwd=VERIF, timeout=7200)
            c['check_exit'] = p.returncode
            c['check_seconds'] = round(time.time() - t0, 1)
            c['check_output'] = [l[:220] for l in p.stdout.splitlines() if l.startswith(('VIOLATION', 'KNOWN-FINDING', '[check] ' + prop))][:12]
        finally:
            sh(['git', '-C', '/repo', 'checkout', '--', '.'])
        c['ran'] = 'scratch worktree: git apply patch.diff; pinned pytest; demo on listed interpreters; then git -C /repo apply patch.diff; ./check %s --tier quick; git -C /repo checkout -- .' % prop
        c['detected'] = p.returncode == 1 and any(l.startswith('VIOLATION property=%s' % prop) for l in p.stdout.splitlines())
        c['with_failing_input'] = c['detected'] and not any('no-failing-input-found' in l for l in c['check_output'])
    out = os.path.join(VERIF, 'seeded', sid)
    os.makedirs(out, exist_ok=True)
    shutil.copy(patch, os.path.join(out, 'patch.diff'))
    shutil.copy(dem, os.path.join(out, 'demo.py'))
    res['demo_cmd'] = 'PYTHONDONTWRITEBYTECODE=1 PYTHONPATH=/verif/harness/shim:/repo %s /verif/seeded/%s/demo.py' % (
        os.path.join(PYENV, INTERP[vers[0]], 'bin', 'python'), sid)
    json.dump(res, open(os.path.join(out, 'meta.json'), 'w'), indent=1)
    print(sid, 'valid' if valid else 'INVALID', 'detected=%s' % c.get('detected'), 'replay=%s' % c.get('with_failing_input'),
          c.get('check_output', [])[-2:] if valid else c)


if __name__ == '__main__':
    main()
