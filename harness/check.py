#!/usr/bin/env python3
"""Orchestrator:  ./check Cxx --tier quick|thorough   |   ./check Cxx --replay replays/…json

Order of work (DESIGN.md §3):
  1. extract  : regenerate lean/CDV/Extracted.lean from /repo's working tree (translator tie)
  2. build    : lake build (model, theorems, driver); audit axioms of the property's theorems
  3. explore  : workers on the real interpreters -> direct oracle (implementation vs CPython),
                op lines -> driver -> Model tie (model vs implementation), Spec tie (Spec vs CPython)
  4. verdict  : exit 0 | exit 1 with "VIOLATION property=… replay=…" | exit 2 (check itself broken)
  5. evidence : evidence/Cxx.json rewritten on every run
"""
import sys, os, json, time, subprocess, hashlib, shutil, re, argparse, tempfile, glob

HERE = os.path.dirname(os.path.abspath(__file__))
VERIF = os.path.dirname(HERE)
REPO = os.environ.get('VERIF_REPO', '/repo')
LEAN = os.path.join(VERIF, 'lean')
PYENV = '/root/.pyenv/versions'
INTERP = {'3.7': '3.7.16', '3.8': '3.8.18', '3.9': '3.9.18', '3.10': '3.10.13',
          '3.11': '3.11.7', '3.12': '3.12.1', '3.13': '3.13.0'}
DECODERS = ['3.7', '3.8', '3.9', '3.10']
ALLOWED_AXIOMS = {'propext', 'Classical.choice', 'Quot.sound'}

sys.path.insert(0, HERE)
import propinfo  # noqa: E402  (per-property tables: theorems, interpreters, texts)


def py(ver):
    return os.path.join(PYENV, INTERP[ver], 'bin', 'python')


def log(*a):
    print('[check]', *a, file=sys.stderr, flush=True)


def run(cmd, **kw):
    return subprocess.run(cmd, stdout=subprocess.PIPE, stderr=subprocess.STDOUT, universal_newlines=True, **kw)


# ------------------------------------------------------------------------------------------------
# 1-2. extract + build + audit

def extract_and_build():
    """returns dict(ok, extract_ok, build_ok, log, drift)"""
    res = {'extract_ok': True, 'build_ok': True, 'log': '', 'drift': []}
    p = run([py('3.10'), os.path.join(HERE, 'extract.py'), REPO, os.path.join(LEAN, 'CDV', 'Extracted.lean')],
            env=dict(os.environ, PYTHONPATH=os.path.join(HERE, 'shim') + ':' + REPO, PYTHONDONTWRITEBYTECODE='1'))
    res['log'] += p.stdout
    if p.returncode != 0:
        res['extract_ok'] = False
    for line in p.stdout.splitlines():
        if line.startswith('DRIFT'):
            res['drift'].append(line)
    t0 = time.time()
    p = run(['lake', 'build'], cwd=LEAN)
    res['build_s'] = time.time() - t0
    res['log'] += p.stdout[-6000:]
    if p.returncode != 0:
        res['build_ok'] = False
        res['failed_modules'] = sorted(set(re.findall(r'^- (\S+)', p.stdout, re.M)))
        res['errors'] = re.findall(r'^error: (.*)$', p.stdout, re.M)[:10]
    return res


def source_scan():
    """forbidden constructs in the Lean sources, outside comments"""
    bad = []
    pat = re.compile(r'\b(sorry|admit|native_decide|bv_decide|implemented_by|unsafe)\b|^axiom |maxHeartbeats 0')
    for f in glob.glob(os.path.join(LEAN, '**', '*.lean'), recursive=True):
        if '/.lake/' in f:
            continue
        txt = open(f).read()
        txt = re.sub(r'/-.*?-/', '', txt, flags=re.S)
        for ln, line in enumerate(txt.splitlines(), 1):
            code = line.split('--')[0]
            if pat.search(code):
                bad.append('%s:%d: %s' % (os.path.relpath(f, LEAN), ln, line.strip()[:100]))
    return bad


def audit(theorems):
    """#print axioms for each theorem; returns {name: [axioms]} (missing theorem -> None)"""
    if not theorems:
        return {}
    src = 'import CDVProofs\n' + ''.join('#print axioms %s\n' % t for t in theorems)
    path = os.path.join(LEAN, '.lake', 'audit_%d.lean' % os.getpid())
    with open(path, 'w') as f:
        f.write(src)
    p = run(['lake', 'env', 'lean', path], cwd=LEAN)
    os.unlink(path)
    out = {}
    txt = p.stdout
    for t in theorems:
        m = re.search(r"'%s' depends on axioms: \[(.*?)\]" % re.escape(t), txt, re.S)
        if m:
            out[t] = [a.strip() for a in m.group(1).replace('\n', ' ').split(',') if a.strip()]
        elif re.search(r"'%s' does not depend on any axioms" % re.escape(t), txt):
            out[t] = []
        else:
            out[t] = None
    return out


# ------------------------------------------------------------------------------------------------
# 3. explore

def worker_env():
    return dict(os.environ, PYTHONPATH=os.path.join(HERE, 'shim') + ':' + REPO, PYTHONDONTWRITEBYTECODE='1',
                VERIF_REPO=REPO, PYTHONHASHSEED='0')


def run_workers(prop, tier, seed, work, interps, nshards):
    procs = []
    for v in interps:
        for s in range(nshards):
            out = os.path.join(work, '%s_%d' % (v, s))
            os.makedirs(out, exist_ok=True)
            lf = open(os.path.join(out, 'log.txt'), 'w')
            p = subprocess.Popen([py(v), os.path.join(HERE, 'worker.py'), 'run', prop, tier, str(seed), str(s), str(nshards), out],
                                 env=worker_env(), stdout=lf, stderr=subprocess.STDOUT, cwd=work)
            procs.append((v, s, out, p, lf))
    results = []
    for v, s, out, p, lf in procs:
        rc = p.wait()
        lf.close()
        results.append({'interp': v, 'shard': s, 'dir': out, 'rc': rc})
    return results


def run_driver(dirs):
    """run the driver over each ops.txt (in parallel); returns per dir list of disagreement records"""
    driver = os.path.join(LEAN, '.lake', 'build', 'bin', 'driver')
    procs = []
    for d in dirs:
        ops = os.path.join(d, 'ops.txt')
        if not os.path.exists(ops) or os.path.getsize(ops) == 0:
            continue
        fo = open(os.path.join(d, 'out.txt'), 'w')
        procs.append((d, subprocess.Popen([driver], stdin=open(ops), stdout=fo, stderr=subprocess.PIPE), fo))
    for d, p, fo in procs:
        p.wait()
        fo.close()


def diff_dir(d):
    """compare driver output with the expectations; returns (counts, model_diffs, spec_diffs)"""
    counts = {'M': 0, 'S': 0, 'UNMODELLED': 0, 'FUEL': 0}
    mdiff, sdiff = [], []
    exp_path, out_path, ops_path = (os.path.join(d, x) for x in ('exp.txt', 'out.txt', 'ops.txt'))
    if not os.path.exists(exp_path) or os.path.getsize(exp_path) == 0:
        return counts, mdiff, sdiff
    exp = open(exp_path).read().split('\n')[:-1]
    out = open(out_path).read().split('\n')[:-1] if os.path.exists(out_path) else []
    ops = [l for l in open(ops_path).read().split('\n')[:-1] if not l.startswith(('optable', 'flagtable'))]
    if len(out) != len(exp):
        sdiff.append({'kind': 'driver-output-length', 'dir': d, 'expected': len(exp), 'got': len(out)})
        return counts, mdiff, sdiff
    for i, (e, o) in enumerate(zip(exp, out)):
        kind, want = e[0], e[2:]
        counts[kind] += 1
        if o in ('UNMODELLED', 'FUEL'):
            counts[o] += 1
            if o == 'FUEL':
                mdiff.append({'op': ops[i][:4000], 'model': o, 'impl': want[:300]})
            continue
        if o != want:
            xs, ys = o.split(' '), want.split(' ')
            k = next((j for j, (p, q) in enumerate(zip(xs, ys)) if p != q), min(len(xs), len(ys)))
            rec = {'op': ops[i][:20000], 'at_token': k, 'model': ' '.join(xs[max(0, k - 6):k + 6]),
                   ('impl' if kind == 'M' else 'cpython'): ' '.join(ys[max(0, k - 6):k + 6])}
            (mdiff if kind == 'M' else sdiff).append(rec)
    return counts, mdiff, sdiff


def load_known():
    p = os.path.join(VERIF, 'known_findings.json')
    if not os.path.exists(p):
        return []
    return json.load(open(p)).get('findings', [])


def write_replay(rec):
    h = hashlib.sha1(json.dumps(rec, sort_keys=True).encode()).hexdigest()[:12]
    path = os.path.join(VERIF, 'replays', '%s-%s.json' % (rec['property'], h))
    os.makedirs(os.path.dirname(path), exist_ok=True)
    rec = dict(rec)
    rec['replay'] = './check %s --replay replays/%s' % (rec['property'], os.path.basename(path))
    with open(path, 'w') as f:
        json.dump(rec, f, indent=1)
    return os.path.relpath(path, VERIF)


def explore(prop, tier, seed, work):
    info = propinfo.PROPS[prop]
    interps = info.get('interps', DECODERS)
    nshards = info.get('shards', {}).get(tier, 4 if tier == 'quick' else 4)
    results = run_workers(prop, tier, seed, work, interps, nshards)
    dirs = [r['dir'] for r in results]
    run_driver(dirs)
    agg = {'stats': {}, 'samples': [], 'violations': [], 'model_diffs': [], 'spec_diffs': [], 'crashed': [],
           'counts': {'M': 0, 'S': 0, 'UNMODELLED': 0, 'FUEL': 0}, 'distinct': 0, 'per_interpreter': {}}
    for r in results:
        d = r['dir']
        if r['rc'] != 0 or not os.path.exists(os.path.join(d, 'stats.json')):
            agg['crashed'].append({'interp': r['interp'], 'shard': r['shard'], 'log': open(os.path.join(d, 'log.txt')).read()[-1500:]})
            continue
        st = json.load(open(os.path.join(d, 'stats.json')))
        if st.get('harness_errors'):
            agg['crashed'].append({'interp': r['interp'], 'shard': r['shard'], 'harness_errors': st['harness_errors'], 'log': st.get('_harness_error')})
        for k, v in st.items():
            if k.startswith('_'):
                continue
            agg['stats'][k] = agg['stats'].get(k, 0) + v
        agg['distinct'] += st.get('_distinct', 0)
        pi = agg['per_interpreter'].setdefault(r['interp'], {'evaluations': 0})
        pi['evaluations'] += sum(v for k, v in st.items() if k in info.get('eval_keys', ['code_objects']))
        if len(agg['samples']) < 8:
            for smp in st.get('_samples', [])[:2]:
                agg['samples'].append(dict(interpreter=r['interp'], **smp) if isinstance(smp, dict) else smp)
        for l in open(os.path.join(d, 'viol.jsonl')):
            agg['violations'].append(json.loads(l))
        c, md, sd = diff_dir(d)
        for k in c:
            agg['counts'][k] += c[k]
        for x in md:
            x['interpreter'] = r['interp']
        for x in sd:
            x['interpreter'] = r['interp']
        agg['model_diffs'] += md
        agg['spec_diffs'] += sd
    return agg


# ------------------------------------------------------------------------------------------------

def main():
    ap = argparse.ArgumentParser()
    ap.add_argument('prop')
    ap.add_argument('--tier', default=os.environ.get('VERIF_TIER', 'quick'))
    ap.add_argument('--replay')
    ap.add_argument('--keep', action='store_true')
    a = ap.parse_args()
    prop = a.prop
    seed = int(os.environ.get('VERIF_SEED', '1'))
    if prop not in propinfo.PROPS:
        print('unknown property', prop)
        return 2
    if a.replay:
        return do_replay(prop, a.replay)
    t0 = time.time()
    info = propinfo.PROPS[prop]
    work = tempfile.mkdtemp(prefix='verif_%s_' % prop)
    try:
        return check(prop, a.tier, seed, info, work, t0)
    finally:
        if not a.keep:
            shutil.rmtree(work, ignore_errors=True)


def do_replay(prop, path):
    if not os.path.isabs(path):
        path = os.path.join(VERIF, path)
    rec = json.load(open(path))
    if rec.get('kind') in ('proof-obligation', 'model-vs-impl') and 'input' not in rec:
        print('replay file names a broken proof obligation / correspondence, no failing input:', rec.get('theorem') or rec.get('what'))
        return 1
    ver = rec.get('interpreter', '3.10')
    work = tempfile.mkdtemp(prefix='verif_replay_')
    try:
        p = run([py(ver), os.path.join(HERE, 'worker.py'), 'replay', path, work], env=worker_env())
        print(p.stdout[-3000:])
        viol = [json.loads(l) for l in open(os.path.join(work, 'viol.jsonl'))] if os.path.exists(os.path.join(work, 'viol.jsonl')) else []
        known = {k['key'] for k in load_known() if k.get('status') == 'finding'}
        new = [v for v in viol if v['key'] not in known]
        for v in viol:
            print(('KNOWN-FINDING: ' if v['key'] in known else 'VIOLATION ') + 'property=%s %s' % (prop, v['key']))
        return 1 if new else 0
    finally:
        shutil.rmtree(work, ignore_errors=True)


class BuildLock(object):
    """extract / lake build / audit of two checks started at the same time must not interleave (one lean/.lake)"""
    def __enter__(self):
        import fcntl
        self.f = open(os.path.join(LEAN, '.build.lock'), 'w')
        fcntl.flock(self.f, fcntl.LOCK_EX)
        return self

    def __exit__(self, *a):
        import fcntl
        fcntl.flock(self.f, fcntl.LOCK_UN)
        self.f.close()


def check(prop, tier, seed, info, work, t0):
    notes = []
    # 1-2
    lock = BuildLock().__enter__()
    b = extract_and_build()
    scan = source_scan()
    theorems = info.get('theorems', [])
    axioms = audit(theorems) if b['build_ok'] else {t: None for t in theorems}
    bad_axioms = {t: ax for t, ax in axioms.items() if ax is not None and not set(ax) <= ALLOWED_AXIOMS}
    missing = [t for t, ax in axioms.items() if ax is None]
    proof_ok = b['build_ok'] and b['extract_ok'] and not scan and not bad_axioms and not missing
    driver_ok = os.path.exists(os.path.join(LEAN, '.lake', 'build', 'bin', 'driver'))
    if tier == 'thorough' and b['build_ok'] and info.get('leanchecker', True):
        p = run(['lake', 'env', 'leanchecker'] + info.get('modules', ['CDVProofs']), cwd=LEAN)
        if p.returncode != 0:
            proof_ok = False
            notes.append('leanchecker failed: ' + p.stdout[-500:])
        else:
            notes.append('leanchecker re-checked ' + ' '.join(info.get('modules', ['CDVProofs'])))
    lock.__exit__()
    # 3
    agg = explore(prop, tier, seed, work) if driver_ok else None
    if agg is None:
        # no driver: still run the direct oracle
        agg = explore_no_driver(prop, tier, seed, work)
    known = load_known()
    known_keys = {k['key']: k for k in known if k.get('status') == 'finding' and k['property'] == prop}
    new_viol = [v for v in agg['violations'] if v['key'] not in known_keys]
    printed = set()
    for v in agg['violations']:
        if v['key'] in known_keys and v['key'] not in printed:
            printed.add(v['key'])
            print('KNOWN-FINDING: property=%s %s — %s' % (prop, v['key'], known_keys[v['key']]['what']))
    exit_code = 0
    replays = []
    # 4. verdict
    if agg['crashed']:
        log('worker crashed:', json.dumps(agg['crashed'])[:2000])
    if new_viol:
        seen = set()
        for v in new_viol:
            if v['key'] in seen:
                continue
            seen.add(v['key'])
            v = dict(v, kind='impl-violates-property')
            path = write_replay(v)
            replays.append(path)
            print('VIOLATION property=%s replay=%s' % (prop, path))
        exit_code = 1
    tie_broken = bool(agg['model_diffs'])
    if exit_code == 0 and (not proof_ok or tie_broken):
        # a proof obligation or the correspondence no longer checks: search for a failing input
        what = []
        if not b['extract_ok']: what.append('translator: harness/extract.py could not regenerate Extracted.lean from the source')
        if not b['build_ok']: what.append('lake build failed: ' + '; '.join(b.get('failed_modules', [])) + ' :: ' + ' | '.join(b.get('errors', []))[:600])
        if scan: what.append('forbidden construct in Lean sources: ' + '; '.join(scan[:3]))
        if bad_axioms: what.append('unexpected axioms: ' + json.dumps(bad_axioms))
        if missing: what.append('theorems missing: ' + ', '.join(missing))
        if tie_broken: what.append('Model tie: model and implementation disagree on %d operations' % len(agg['model_diffs']))
        log('proof obligation / correspondence broken:', what)
        found = search_failing_input(prop, seed, work, known_keys)
        if found:
            for v in found:
                path = write_replay(dict(v, kind='impl-violates-property', found_by='search after broken proof/correspondence'))
                replays.append(path)
                print('VIOLATION property=%s replay=%s' % (prop, path))
        else:
            rec = {'property': prop, 'kind': 'model-vs-impl' if tie_broken else 'proof-obligation', 'what': what,
                   'theorems': theorems, 'first_disagreements': agg['model_diffs'][:3], 'seed': seed}
            path = write_replay(rec)
            replays.append(path)
            print('VIOLATION property=%s replay=%s no-failing-input-found' % (prop, path))
        exit_code = 1
    spec_broken = bool(agg['spec_diffs'])
    if spec_broken or agg['crashed']:
        log('SPEC TIE / HARNESS BROKEN:', json.dumps(agg['spec_diffs'][:2])[:3000])
        if exit_code == 0:
            exit_code = 2
    # 5. evidence
    evaluations = sum(agg['stats'].get(k, 0) for k in info.get('eval_keys', ['code_objects']))
    ev = {
        'property_id': prop, 'tier': tier, 'seed': seed, 'level': 'proof',
        'coverage': {
            'obligations': len(theorems), 'discharged': sum(1 for t in theorems if axioms.get(t) is not None and t not in bad_axioms) if b['build_ok'] else 0,
            'checker_cmd': 'cd lean && lake build && lake env lean <#print axioms of each theorem>' + (' && lake env leanchecker' if tier == 'thorough' else ''),
            'trusted_base': propinfo.TRUSTED_BASE + info.get('trusted_extra', []),
            'theorems': [{'name': t, 'axioms': axioms.get(t)} for t in theorems],
            'statement_coverage': info.get('statement_coverage', ''),
            'evaluations': evaluations,
            'distinct_nontrivial': agg['distinct'],
            'rule': info.get('rule', ''),
            'samples': agg['samples'][:8] or [{'note': 'no samples recorded'}],
            'per_interpreter': agg['per_interpreter'],
            'model_tie': {'operations_compared': agg['counts']['M'], 'disagreements': len(agg['model_diffs']),
                          'unmodelled': agg['counts']['UNMODELLED'], 'fuel_exhausted': agg['counts']['FUEL']},
            'spec_tie': {'operations_compared': agg['counts']['S'], 'disagreements': len(agg['spec_diffs'])},
            'translator': {'extracted_ok': b['extract_ok'], 'drift': b['drift']},
            'input_distribution': {k: v for k, v in sorted(agg['stats'].items()) if not k.startswith('violation:')},
            'violation_keys': {k[10:]: v for k, v in agg['stats'].items() if k.startswith('violation:')},
            'known_findings_hit': sorted(printed),
            'replays': replays,
            'notes': notes,
            'exhaustive': bool(info.get('exhaustive', {}).get(tier, False)),
        },
        'assumptions': info.get('assumptions', []),
        'wall_s': round(time.time() - t0, 2),
        'violations': len(new_viol) + (1 if exit_code == 1 and not new_viol else 0),
    }
    os.makedirs(os.path.join(VERIF, 'evidence'), exist_ok=True)
    with open(os.path.join(VERIF, 'evidence', prop + '.json'), 'w') as f:
        json.dump(ev, f, indent=1, sort_keys=True)
    log('%s %s: exit %d, %d evaluations, %d model ops (%d diffs), %d spec ops (%d diffs), %d new violations, %.1fs'
        % (prop, tier, exit_code, evaluations, agg['counts']['M'], len(agg['model_diffs']), agg['counts']['S'],
           len(agg['spec_diffs']), len(new_viol), time.time() - t0))
    return exit_code


def explore_no_driver(prop, tier, seed, work):
    agg = explore(prop, tier, seed, work)
    return agg


def search_failing_input(prop, seed, work, known_keys):
    """the proof or the correspondence broke: look harder for an input on which the implementation fails the property"""
    found = []
    for extra in (1, 2):
        sub = os.path.join(work, 'search%d' % extra)
        os.makedirs(sub, exist_ok=True)
        agg = explore(prop, 'search', seed * 7919 + extra, sub)
        new = [v for v in agg['violations'] if v['key'] not in known_keys]
        if new:
            seen = set()
            for v in new:
                if v['key'] not in seen:
                    seen.add(v['key'])
                    found.append(v)
            break
    return found


if __name__ == '__main__':
    sys.exit(main())
