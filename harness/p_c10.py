# 3.7-compatible.  C10: the line-table codec agrees with CPython for everything its assembler can emit.
import sys, types, random, dis, binascii
import ser, corpus, oracles as O
import props
from props import try_, VS, V
from code_data import CodeData

V310 = V >= (3, 10)
NOP = dis.opmap['NOP']
LOAD_CONST = dis.opmap['LOAD_CONST']
RETURN_VALUE = dis.opmap['RETURN_VALUE']
FIRST = 100000

BD = [2, 4, 6, 8, 10, 126, 128, 250, 252, 254, 256, 258, 506, 508, 510, 512, 514, 760, 762, 764, 766, 1016, 1020, 1022]
LD = [1, 2, 3, -1, -2, 126, 127, 128, 129, 130, -126, -127, -128, -129, -130, 253, 254, 255, 256, 257, -253, -254, -255, -256, -257,
      381, 382, 384, 385, -381, -382, -384, -385, 508, 509, -508, -512, 1000, -1000]


# ---- CPython's assemblers, written independently of the Lean Spec (the two are compared on every run) ----

def asm_old(events, ver):
    rows = []
    for bd, ld in events:
        if (ld == 0) if ver == (3, 9) else (bd == 0 and ld == 0):
            continue
        if bd > 255:
            n = bd // 255
            rows += [(255, 0)] * n
            bd -= n * 255
        if ld < -128 or 127 < ld:
            if ld < 0:
                k = -128; n = (-ld) // 128
            else:
                k = 127; n = ld // 127
            ld -= n * k
            rows.append((bd, k))
            bd = 0
            rows += [(0, k)] * (n - 1)
        rows.append((bd, ld))
    return bytes(b for bd, ld in rows for b in (bd, ld & 255))


def asm_lt(events):
    rows = []
    for bd, ld in events:
        if bd == 0:
            continue
        if ld is None:
            l = -128
        else:
            l = ld
            while l > 127:
                rows.append((0, 127)); l -= 127
            while l < -127:
                rows.append((0, -127)); l += 127
        while bd > 254:
            rows.append((254, l))
            l = -128 if ld is None else 0
            bd -= 254
        rows.append((bd, l))
    return bytes(b for bd, ld in rows for b in (bd, ld & 255))


def gen_events(rng):
    n = rng.choice([0, 1, 1, 2, 2, 3, 3, 4, 5, 6, 8])
    ev = []
    prev_none = False
    for i in range(n):
        if V310:
            bd = rng.choice(BD) if rng.random() < .7 else 2 * rng.randrange(1, 600)
            if not prev_none and rng.random() < .25:
                ev.append((bd, None)); prev_none = True
                continue
            if (i == 0 or prev_none) and rng.random() < .3:
                ld = 0
            else:
                ld = rng.choice(LD) if rng.random() < .7 else rng.choice([-1, 1]) * rng.randrange(1, 1100)
            ev.append((bd, ld)); prev_none = False
        else:
            r = rng.random()
            if i == 0 and r < .5: bd = 0
            elif i > 0 and r < .15: bd = 0           # folded constants: a line event without bytecode
            elif r < .75: bd = rng.choice(BD)
            else: bd = 2 * rng.randrange(1, 600)
            r = rng.random()
            if r < .08 and V < (3, 9) and bd > 0: ld = 0
            elif r < .7: ld = rng.choice(LD)
            else: ld = rng.choice([-1, 1]) * rng.randrange(1, 1100)
            ev.append((bd, ld))
    return ev


def make_code(table, ncode_units):
    base = compile('None', '<c10>', 'eval')
    code = bytes([NOP, 0] * (ncode_units - 2) + [LOAD_CONST, 0, RETURN_VALUE, 0])
    if V >= (3, 8):
        kw = {'co_code': code, 'co_firstlineno': FIRST, 'co_filename': '<c10>'}
        kw['co_linetable' if V310 else 'co_lnotab'] = table
        return base.replace(**kw)
    return types.CodeType(0, 0, 0, base.co_stacksize, base.co_flags, code, base.co_consts, base.co_names, base.co_varnames,
                          '<c10>', base.co_name, FIRST, table, (), ())


def ev_tokens(ev):
    return ' '.join('%d:%s' % (bd, '-' if ld is None else ld) for bd, ld in ev)


def c10_input(w, inp):
    ev = [(bd, ld) for bd, ld in inp['events']]
    tail = inp['tail']
    table = asm_lt(ev) if V310 else asm_old(ev, V)
    total = sum(bd for bd, _ in ev)
    units = max(total // 2 + tail, 2)
    if V310:
        # the last range has to reach the end of the code
        if total // 2 < units:
            ev = ev + [((units - total // 2) * 2, 1)]
            table = asm_lt(ev)
    code = make_code(table, units)
    n = len(code.co_code)
    w.stats['line_programs'] += 1
    w.stats['events'] += len(ev)
    w.stats['table_rows'] += len(table) // 2
    w.seen((table, n))
    for bd, ld in ev:
        w.stats['ev_noline' if ld is None else 'ev_bigline' if abs(ld) > 127 else 'ev_line'] += 1
        if bd > 254: w.stats['ev_bigbyte'] += 1
        if bd == 0: w.stats['ev_zerobyte'] += 1
    # Spec ties
    w.op('S', 'asm %s %s' % (VS, ev_tokens(ev)), 'OK y' + binascii.hexlify(table).decode())
    offs = list(range(0, n, 2))
    want = [O.addr2line(code, o) for o in offs]
    w.op('S', 'lineof %s %d y%s %s' % (VS, FIRST, binascii.hexlify(table).decode(), ' '.join(map(str, offs))),
         'OK ' + ' '.join('-' if l is None else str(l) for l in want))
    # implementation, end to end through the public API
    d, e = try_(CodeData.from_code, code)
    det = {'table': binascii.hexlify(table).decode(), 'code_len': n}
    if e is not None:
        w.violation('C10:from_code-raises:' + type(e).__name__, inp, dict(det, error=O.exc_str(e)))
        return
    got = [i.line_number for b in d.blocks for i in b]
    if got != want:
        k = next(j for j in range(len(want)) if j >= len(got) or got[j] != want[j])
        w.violation('C10:decoded-line-differs', inp, dict(det, offset=2 * k, decoded=got[k] if k < len(got) else None, cpython=want[k]))
    c2, e = try_(d.to_code)
    if e is not None:
        w.violation('C10:to_code-raises:' + type(e).__name__, inp, dict(det, error=O.exc_str(e)))
        return
    t2 = O.line_table(c2)
    if t2 != table:
        w.violation('C10:table-not-reproduced', inp, dict(det, got=binascii.hexlify(t2).decode()))
    # model tie: the two end-to-end functions of _line_mapping
    from code_data._line_mapping import to_line_mapping, from_line_mapping
    m, e = try_(to_line_mapping, code)
    exp = 'ERR' if e is not None else 'OK ' + ser.s_list(lambda kv: '%d:%s' % (kv[0], '-' if kv[1] is None else kv[1]), list(m.offset_to_line.items())) \
        + ' ' + ser.s_list(lambda kv: '%d:%s' % (kv[0], ','.join(map(str, kv[1]))), list(m.offset_to_additional_line_offsets.items()))
    w.op('M', 'linemap %d %d y%s' % (1 if V310 else 0, n, binascii.hexlify(table).decode()), exp)
    if e is None:
        b2, e2 = try_(from_line_mapping, m)
        w.op('M', 'linert %d %d y%s' % (1 if V310 else 0, n, binascii.hexlify(table).decode()),
             'ERR' if e2 is not None else 'OK y' + binascii.hexlify(b2).decode())
    w.sample({'events': ev, 'table': det['table'], 'code_len': n})


def real_tables(w):
    """every table of the program corpus: decode vs CPython's reader, byte-exact re-encoding, assembler Spec tie"""
    for inp, c in props.programs(w):
        for k in corpus.all_code(c):
            table = O.line_table(k)
            n = len(k.co_code)
            w.stats['real_tables'] += 1
            w.seen((table, n))
            d, e = try_(CodeData.from_code, k)
            if e is not None:
                continue
            want = [l for _, _, l in O.reading(k)]
            got = [i.line_number for b in d.blocks for i in b]
            if got != want:
                w.violation('C10:decoded-line-differs', inp, {'code_name': k.co_name, 'firstlineno': k.co_firstlineno})
            c2, e = try_(d.to_code)
            if e is None and O.line_table(c2) != table and not (props.interior_lnotab_entry(k) and props.only_addresses_moved(table, O.line_table(c2))):
                w.violation('C10:table-not-reproduced', inp, {'code_name': k.co_name, 'firstlineno': k.co_firstlineno,
                                                              'table': binascii.hexlify(table).decode(), 'got': binascii.hexlify(O.line_table(c2)).decode()})
            if len(table) < 4000:
                offs = [f for f, _ in O.folded(k)]
                w.op('S', 'lineof %s %d y%s %s' % (VS, k.co_firstlineno, binascii.hexlify(table).decode(), ' '.join(map(str, offs))),
                     'OK ' + ' '.join('-' if l is None else str(l) for l in want))
                if V310:
                    # co_lines() gives maximal runs: the assembler model must reproduce the table from them
                    ev = []
                    prev = k.co_firstlineno
                    for s, e_, l in k.co_lines():
                        ev.append((e_ - s, None if l is None else l - prev))
                        if l is not None:
                            prev = l
                    w.op('S', 'asm %s %s' % (VS, ev_tokens(ev)), 'OK y' + binascii.hexlify(table).decode())
                    w.stats['real_tables_reassembled'] += 1


def run_C10(w):
    rng = random.Random(w.seed * 7 + 13 * w.shard + sys.version_info[1])
    n = {'quick': 6000, 'search': 8000}.get(w.tier, 250000) // w.nshards
    for i in range(n):
        sub = rng.randrange(1 << 30)
        r2 = random.Random(sub)
        ev = gen_events(r2)
        tail = r2.choice([0, 1, 1, 2, 3]) if not V310 else r2.choice([0, 0, 1, 3])
        w.guard(c10_input, w, {'kind': 'lineprog', 'events': ev, 'tail': tail, 'subseed': sub})
    real_tables(w)


props.RUN['C10'] = run_C10
props.ONE['C10'] = lambda w, inp, c: real_tables_one(w, inp, c)
props.REPLAY['lineprog'] = lambda w, prop, inp: c10_input(w, inp)


def real_tables_one(w, inp, c):
    class One(object):
        pass
    saved = props.programs
    props.programs = lambda w_: [(inp, c)]
    try:
        real_tables(w)
    finally:
        props.programs = saved
