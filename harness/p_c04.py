# 3.7-compatible.  C04: signature, docstring and kind agree with CPython's calling convention.
import sys, types, random, inspect
import ser, corpus, oracles as O
import props
from props import try_, programs, compile_inp, VS, V
from code_data import CodeData


def sig_shapes():
    """signature shapes: counts 0..2 of positional-only (3.8+), 0..3 of positional-or-keyword and
    keyword-only, optional *args / **kwargs, with or without defaults"""
    out = []
    for npos in ([0, 1, 2] if V >= (3, 8) else [0]):
        for npk in (0, 1, 2, 3):
            for nkw in (0, 1, 2, 3):
                for star in (False, True):
                    for kw in (False, True):
                        for defaults in (False, True):
                            out.append((npos, npk, nkw, star, kw, defaults))
    return out


def sig_text(shape):
    npos, npk, nkw, star, kw, defaults = shape
    parts = []
    for i in range(npos):
        parts.append('p%d' % i + ('=1' if defaults and i == npos - 1 and npk == 0 else ''))
    if npos:
        parts.append('/')
    for i in range(npk):
        parts.append('a%d' % i + ('=2' if defaults and i == npk - 1 else ''))
    if star:
        parts.append('*va')
    elif nkw:
        parts.append('*')
    for i in range(nkw):
        parts.append('k%d' % i + ('=3' if defaults and i % 2 == 0 else ''))
    if kw:
        parts.append('**vk')
    return ', '.join(parts)


FN_KINDS = ['def', 'lambda', 'async def', 'generator', 'async generator', 'method', 'closure']
DOCS = [None, "'doc'", "'''multi\nline doc'''", "'\\udc80sur'", "b'bytes'", "1", "''", "f'{x}'"]


def fn_source(kind, sig, doc):
    ind = '    '
    if kind == 'lambda':
        return 'f = lambda %s: 0\n' % sig
    if kind == 'method':
        body = (ind * 2 + doc + '\n' if doc is not None else '') + ind * 2 + 'return super()\n'
        return 'class C:\n    def f(%s):\n%s' % (sig, body)
    if kind == 'closure':
        body = (ind * 2 + doc + '\n' if doc is not None else '') + ind * 2 + 'return q\n'
        return 'def outer(q):\n    def f(%s):\n%s    return f\n' % (sig, body)
    head = {'def': 'def', 'async def': 'async def', 'generator': 'def', 'async generator': 'async def'}[kind]
    last = 'yield 1' if 'generator' in kind else 'return 1'
    body = (ind + doc + '\n' if doc is not None else '') + ind + last + '\n'
    return '%s f(%s):\n%s' % (head, sig, body)


def make_cell():
    return (lambda x: (lambda: x).__closure__[0])(0)


def c04_check_code(w, inp, k):
    d, e = try_(CodeData.from_code, k)
    if e is not None:
        w.stats['decode_raises'] += 1
        return
    det = {'code_name': k.co_name, 'firstlineno': k.co_firstlineno, 'flags': k.co_flags}
    is_fn = (k.co_flags & 3) == 3           # CO_OPTIMIZED | CO_NEWLOCALS: function-like scope
    w.stats['code_objects'] += 1
    if not is_fn:
        w.stats['non_function_scopes'] += 1
        if d.type is not None:
            w.violation('C04:non-function-has-type', inp, det)
        return
    if d.type is None:
        w.violation('C04:function-has-no-type', inp, det)
        return
    try:
        closure = tuple(make_cell() for _ in k.co_freevars) or None
        fn = types.FunctionType(k, {}, 'f', None, closure)
        sig = inspect.signature(fn)
    except Exception as ex:
        w.stats['inspect_failed:' + type(ex).__name__] += 1
        return
    want = [(n, p.kind.name) for n, p in sig.parameters.items()]
    # inspect presents a comprehension's implicit argument '.0' as positional-only 'implicit0' (it cannot be
    # written as a keyword in source); CPython binds it as an ordinary positional-or-keyword parameter
    for i, (n, kd) in enumerate(want):
        if i < len(k.co_varnames) and k.co_varnames[i].startswith('.') and n == 'implicit' + k.co_varnames[i][1:]:
            want[i] = (k.co_varnames[i], 'POSITIONAL_ONLY' if i < getattr(k, 'co_posonlyargcount', 0) else 'POSITIONAL_OR_KEYWORD')
            w.stats['implicit_args'] += 1
    got = [(n, kd.name) for n, kd in d.type.args.parameters.items()]
    w.op('M', 'sig %s %s' % (VS, ser.s_code(k)), 'OK ' + ' '.join('%s:%s' % (ser.s_str(n), kd) for n, kd in got))
    w.op('S', 'specsig %s %s' % (VS, ser.s_code(k)), 'OK ' + ' '.join('%s:%s' % (ser.s_str(n), kd) for n, kd in want))
    w.seen(tuple(kd for _, kd in want) + (k.co_flags & 0x2a0, type(fn.__doc__).__name__))
    if got != want:
        w.violation('C04:signature-differs', inp, dict(det, cpython=want, decoded=got))
    if len(d.type.args) != len(want):
        w.violation('C04:len-args-differs', inp, dict(det, cpython=len(want), decoded=len(d.type.args)))
    if d.type.docstring != fn.__doc__ or type(d.type.docstring) is not type(fn.__doc__):
        w.violation('C04:docstring-differs', inp, dict(det, cpython=repr(fn.__doc__), decoded=repr(d.type.docstring)))
    kind = ('GENERATOR' if inspect.isgeneratorfunction(fn) else 'COROUTINE' if inspect.iscoroutinefunction(fn)
            else 'ASYNC_GENERATOR' if inspect.isasyncgenfunction(fn) else None)
    if d.type.type != kind:
        w.violation('C04:function-kind-differs', inp, dict(det, cpython=kind, decoded=d.type.type))
    # the answer must not depend on what was done with the data in between: encode it, then ask again, and ask a
    # freshly decoded value as well (seeded change C04-r3: a memo shared with the encoder, which reorders it in place)
    try_(d.to_code)
    again = [(n, kd.name) for n, kd in d.type.args.parameters.items()]
    d2, e2 = try_(CodeData.from_code, k)
    fresh = [(n, kd.name) for n, kd in d2.type.args.parameters.items()] if e2 is None and d2.type is not None else None
    if again != want or fresh != want or len(d.type.args) != len(want):
        w.violation('C04:signature-differs-after-to_code', inp, dict(det, cpython=want, after_to_code=again, decoded_again=fresh))
    # the independent reading of the header: counts and flags
    a = d.type.args
    if (len(a.positional_only), len(a.positional_only) + len(a.positional_or_keyword), len(a.keyword_only),
            a.var_positional is not None, a.var_keyword is not None) != \
            (getattr(k, 'co_posonlyargcount', 0), k.co_argcount, k.co_kwonlyargcount, bool(k.co_flags & 4), bool(k.co_flags & 8)):
        w.violation('C04:counts-differ-from-header', inp, det)


def c04_input(w, inp):
    if inp['kind'] == 'sig':
        src = fn_source(inp['fnkind'], sig_text(tuple(inp['shape'])), inp['doc'])
        try:
            c = compile(src, '<sig>', 'exec', dont_inherit=True, optimize=inp['opt'])
        except SyntaxError:
            w.stats['syntax_error'] += 1
            return
        for k in corpus.all_code(c):
            c04_check_code(w, inp, k)
            # the same code object with co_nlocals edited by hand: CPython binds the parameters all the same
            if k.co_varnames and inp.get('shape') and sum(inp['shape'][:3]) and V >= (3, 8):
                for nl in (0, 1, len(k.co_varnames) + 1):
                    try:
                        k2 = k.replace(co_nlocals=nl)
                    except (ValueError, SystemError):
                        continue
                    w.stats['altered_nlocals'] += 1
                    c04_check_code(w, dict(inp, nlocals=nl), k2)
        w.sample({'src': src, 'opt': inp['opt']})
    else:
        c = compile_inp(inp)
        for k in corpus.all_code(c):
            c04_check_code(w, inp, k)


def run_C04(w):
    rng = random.Random(w.seed)
    shapes = sig_shapes()
    if w.tier == 'quick':
        combos = [(sh, fk, rng.choice(DOCS), rng.choice((0, 2))) for sh in shapes for fk in FN_KINDS]
        combos += [(sh, fk, doc, opt) for sh in rng.sample(shapes, 4) for fk in FN_KINDS for doc in DOCS for opt in (0, 2)]
    else:
        combos = [(sh, fk, doc, opt) for sh in shapes for fk in FN_KINDS for doc in DOCS for opt in (0, 2)]
    for i, (sh, fk, doc, opt) in enumerate(combos):
        if i % w.nshards != w.shard:
            continue
        w.guard(c04_input, w, {'kind': 'sig', 'shape': list(sh), 'fnkind': fk, 'doc': doc, 'opt': opt})
        w.stats['signatures'] += 1
    # comprehensions, class bodies, modules, nested scopes: from the program corpus
    for inp, c in programs(w, want=('fixed', 'special', 'gen')):
        for k in corpus.all_code(c):
            c04_check_code(w, inp, k)
        w.stats['programs'] += 1


props.RUN['C04'] = run_C04
props.ONE['C04'] = lambda w, inp, c: c04_input(w, inp)
props.REPLAY['sig'] = lambda w, prop, inp: c04_input(w, inp)
