# 3.7-compatible.  Serialization variants of a code object, built with an independent little assembler
# (not code_data's encoder): table permutations with consistent renumbering, unreferenced padding,
# redundant EXTENDED_ARG prefixes on jumps, CO_NESTED.  Every variant is checked to read the same
# (oracles.reading) before it is used.
import sys, dis, types, random
import oracles as O
from p_c10 import asm_old, asm_lt

V = sys.version_info[:2]
V310 = V >= (3, 10)
EXT = dis.EXTENDED_ARG


def nunits(arg):
    return 1 if arg <= 0xFF else 2 if arg <= 0xFFFF else 3 if arg <= 0xFFFFFF else 4


def assemble(instrs):
    """instrs: list of dicts {op, arg (int or None), target (instruction index or None), rel, line, extra}
    returns (code bytes, [(offset, line)] per instruction start)"""
    n = len(instrs)
    sizes = [1 + i.get('extra', 0) for i in instrs]
    args = [i['arg'] or 0 for i in instrs]
    for _ in range(50):
        offs = [0]
        for s in sizes:
            offs.append(offs[-1] + s)
        changed = False
        for k, i in enumerate(instrs):
            if i.get('target') is not None:
                t = offs[i['target']]
                a = (t - offs[k + 1]) if i['rel'] else t
                if not V310:
                    a *= 2
                if a < 0:
                    return None
                args[k] = a
            need = nunits(args[k]) + i.get('extra', 0)
            if need > 4:
                return None
            if need != sizes[k]:
                sizes[k] = need
                changed = True
        if not changed:
            break
    else:
        return None
    out = bytearray()
    starts = []
    for k, i in enumerate(instrs):
        starts.append((len(out), i['line']))
        s = sizes[k]
        a = args[k]
        for j in reversed(range(s)):
            out.append(i['op'] if j == 0 else EXT)
            out.append((a >> (8 * j)) & 0xFF)
    return bytes(out), starts, len(out)


def line_table(starts, total, firstlineno):
    """a canonical table giving each instruction start its line"""
    if V310:
        ev = []
        prev = firstlineno
        cur_start, cur_line = 0, starts[0][1] if starts else None
        runs = []
        for off, line in starts[1:]:
            if line != cur_line:
                runs.append((off - cur_start, cur_line))
                cur_start, cur_line = off, line
        runs.append((total - cur_start, cur_line))
        for bd, line in runs:
            if line is None:
                ev.append((bd, None))
            else:
                ev.append((bd, line - prev)); prev = line
        return asm_lt(ev)
    ev = []
    prev_line, prev_off = firstlineno, 0
    for off, line in starts:
        if line != prev_line:
            ev.append((off - prev_off, line - prev_line))
            prev_line, prev_off = line, off
    return asm_old(ev, V)


def disassemble(c):
    fl = O.folded(c)
    idx = {f: k for k, (f, i) in enumerate(fl)}
    out = []
    for f, i in fl:
        d = {'op': i.opcode, 'arg': i.arg, 'target': None, 'rel': False, 'line': O.addr2line(c, f), 'extra': 0}
        if i.opcode in dis.hasjabs or i.opcode in dis.hasjrel:
            if i.argval not in idx:
                return None
            d['target'] = idx[i.argval]
            d['rel'] = i.opcode in dis.hasjrel
        out.append(d)
    return out


def rebuild(c, instrs, **tables):
    r = assemble(instrs)
    if r is None:
        return None
    code, starts, total = r
    if not V310 and any(l is None for _, l in starts):
        return None
    kw = dict(co_code=code, **tables)
    kw['co_linetable' if V310 else 'co_lnotab'] = line_table(starts, total, c.co_firstlineno)
    try:
        if V >= (3, 8):
            return c.replace(**kw)
        g = lambda a: kw.get(a, getattr(c, a))
        return types.CodeType(g('co_argcount'), g('co_kwonlyargcount'), g('co_nlocals'), g('co_stacksize'), g('co_flags'),
                              g('co_code'), g('co_consts'), g('co_names'), g('co_varnames'), g('co_filename'), g('co_name'),
                              g('co_firstlineno'), g('co_lnotab'), g('co_freevars'), g('co_cellvars'))
    except (ValueError, SystemError, TypeError):
        return None


def permute(rng, n, fixed=0):
    idx = list(range(fixed, n))
    rng.shuffle(idx)
    return list(range(fixed)) + idx       # new position p holds old entry perm[p]


def variant(c, rng, kind):
    """one variant of code object c (not recursive), or None if this kind does not apply"""
    instrs = disassemble(c)
    if instrs is None or not instrs:
        return None
    nparams = c.co_argcount + c.co_kwonlyargcount + bool(c.co_flags & 4) + bool(c.co_flags & 8)
    is_fn = (c.co_flags & 3) == 3
    if kind == 'nested':
        return rebuild(c, instrs, co_flags=c.co_flags ^ 0x10)
    if kind == 'extended-jump':
        js = [k for k, i in enumerate(instrs) if i['target'] is not None]
        if not js:
            return None
        for k in rng.sample(js, min(len(js), rng.choice([1, 1, 2, 3]))):
            instrs[k]['extra'] = rng.choice([1, 1, 2])
        return rebuild(c, instrs)
    if kind in ('perm-consts', 'perm-names', 'perm-varnames', 'perm-cellvars', 'pad', 'pad-cells'):
        consts, names, varnames, cellvars = list(c.co_consts), list(c.co_names), list(c.co_varnames), list(c.co_cellvars)
        tables = {}
        def renumber(ops, perm, lo=0, hi=None):
            inv = {old: new for new, old in enumerate(perm)}
            for i in instrs:
                if i['op'] in ops and i['target'] is None and (hi is None or lo <= i['arg'] < hi):
                    i['arg'] = inv[i['arg']]
        if kind == 'perm-consts':
            fixed = 1 if (is_fn and consts) else 0       # slot 0 of a function is its docstring slot
            if len(consts) - fixed < 2:
                return None
            perm = permute(rng, len(consts), fixed)
            renumber(dis.hasconst, perm)
            tables['co_consts'] = tuple(consts[o] for o in perm)
        elif kind == 'perm-names':
            if len(names) < 2:
                return None
            perm = permute(rng, len(names))
            renumber(dis.hasname, perm)
            tables['co_names'] = tuple(names[o] for o in perm)
        elif kind == 'perm-varnames':
            if len(varnames) - nparams < 2:
                return None
            perm = permute(rng, len(varnames), nparams)
            renumber(dis.haslocal, perm)
            tables['co_varnames'] = tuple(varnames[o] for o in perm)
        elif kind == 'perm-cellvars':
            if len(cellvars) < 2 or V < (3, 8):
                return None
            perm = permute(rng, len(cellvars))
            renumber(dis.hasfree, perm, 0, len(cellvars))
            tables['co_cellvars'] = tuple(cellvars[o] for o in perm)
        elif kind == 'pad-cells':
            # an unreferenced cell variable at the end of co_cellvars (what dead code leaves behind): the free variables
            # move up by one, CO_NOFREE goes (seeded change C06-r5)
            if not is_fn:
                return None
            n = len(cellvars)
            for i in instrs:
                if i['op'] in dis.hasfree and i['target'] is None and i['arg'] >= n:
                    i['arg'] += 1
            tables['co_cellvars'] = tuple(cellvars) + ('unused_cell',)
            tables['co_flags'] = c.co_flags & ~0x40
        else:   # pad: unreferenced entries at the end of the tables
            tables['co_consts'] = tuple(consts) + (rng.choice([12345, 'unused', (1, 2), 2.5, b'x']),)
            tables['co_names'] = tuple(names) + ('unused_name',)
            if is_fn:
                tables['co_varnames'] = tuple(varnames) + ('unused_local',)
                tables['co_nlocals'] = len(varnames) + 1
        return rebuild(c, instrs, **tables)
    raise ValueError(kind)


KINDS = ['nested', 'extended-jump', 'perm-consts', 'perm-names', 'perm-varnames', 'perm-cellvars', 'pad', 'pad-cells']


def same_reading(a, b):
    """a and b read the same: instruction stream with resolved operands and lines, and the header mod NESTED"""
    ha, hb = O.header(a), O.header(b)
    return O.reading(a) == O.reading(b) and ha == hb
