# 3.7-compatible.  Direct oracles: the property predicates evaluated on the real implementation
# against CPython's own readers (dis, PyCode_Addr2Line, inspect, ...).  Nothing here uses the Lean model.
import sys, dis, types, ctypes, dataclasses, hashlib, traceback
import ser
import code_data as cd
from code_data import CodeData

V = sys.version_info[:2]
V310 = V >= (3, 10)
A2L = ctypes.pythonapi.PyCode_Addr2Line
A2L.argtypes = [ctypes.py_object, ctypes.c_int]
A2L.restype = ctypes.c_int

CODE_ATTRS = ['co_argcount', 'co_kwonlyargcount', 'co_nlocals', 'co_stacksize', 'co_flags', 'co_code',
              'co_names', 'co_varnames', 'co_freevars', 'co_cellvars', 'co_filename', 'co_name',
              'co_firstlineno', 'co_linetable' if V310 else 'co_lnotab']
if V >= (3, 8):
    CODE_ATTRS.insert(1, 'co_posonlyargcount')


def exc_str(e):
    return '%s: %s' % (type(e).__name__, str(e)[:200])


def line_table(c):
    return c.co_linetable if V310 else c.co_lnotab


def strict_same(a, b):
    return ser.s_code(a) == ser.s_code(b)


def code_diff(a, b, path='code'):
    """list of 'path.attr' that differ (constants compared type- and bit-exactly, recursively)"""
    out = []
    for at in CODE_ATTRS:
        if getattr(a, at) != getattr(b, at) or type(getattr(a, at)) is not type(getattr(b, at)):
            out.append('%s.%s' % (path, at))
    ca, cb = a.co_consts, b.co_consts
    if len(ca) != len(cb):
        out.append('%s.co_consts(len)' % path)
    else:
        for i, (x, y) in enumerate(zip(ca, cb)):
            if isinstance(x, types.CodeType) and isinstance(y, types.CodeType):
                out += code_diff(x, y, '%s.co_consts[%d]' % (path, i))
            elif isinstance(x, types.CodeType) or isinstance(y, types.CodeType) or ser.s_inner(x) != ser.s_inner(y):
                out.append('%s.co_consts[%d]' % (path, i))
    return out


# ------------------------------------------------------------------------------------------------
# independent reading of a code object (C02, C05, C13)

def folded(c):
    """[(first_offset, dis.Instruction)] with EXTENDED_ARG prefixes folded away"""
    out = []
    first = None
    for i in dis.get_instructions(c):
        if first is None:
            first = i.offset
        if i.opcode == dis.EXTENDED_ARG:
            continue
        out.append((first, i))
        first = None
    return out


def addr2line(c, off):
    l = A2L(c, off)
    if V310 and l == -1:
        return None
    return l


def const_desc(k):
    if isinstance(k, types.CodeType):
        return 'kCODE:' + hashlib.sha1(ser.s_code(k).encode()).hexdigest()[:12]
    return 'k' + ser.s_inner(k).replace(' ', '_')


def reading(c, lines=True, code_desc=const_desc):
    """CPython's own reading: list of (opcode, operand description, line)"""
    fl = folded(c)
    offidx = {f: k for k, (f, i) in enumerate(fl)}
    cells = c.co_cellvars + c.co_freevars
    out = []
    for f, i in fl:
        op, arg = i.opcode, i.arg
        if op in dis.hasjabs or op in dis.hasjrel:
            a = 'J%s:%d' % (offidx.get(i.argval, '?'), 1 if op in dis.hasjrel else 0)
        elif op in dis.hasname:
            a = 'n' + ser.s_str(c.co_names[arg])
        elif op in dis.haslocal:
            a = 'v' + ser.s_str(c.co_varnames[arg])
        elif op in dis.hasfree:
            a = ('ce' if arg < len(c.co_cellvars) else 'fr') + ser.s_str(cells[arg])
        elif op in dis.hasconst:
            a = code_desc(c.co_consts[arg])
        elif op < dis.HAVE_ARGUMENT:
            a = 'na'
        else:
            a = 'r%d' % arg
        out.append((op, a, addr2line(c, f) if lines else None))
    return out


def block_starts(d):
    out = []
    k = 0
    for b in d.blocks:
        out.append(k)
        k += len(b)
    return out


def data_const_desc(v):
    if isinstance(v, CodeData):
        # a nested CodeData is described by the code it encodes to
        return 'kCODE:' + hashlib.sha1(ser.s_code(v.to_code()).encode()).hexdigest()[:12]
    return 'k' + ser.s_inner(v).replace(' ', '_')


def view(d, lines=True, const_desc=data_const_desc):
    """the reading of a CodeData value: flatten blocks, jumps -> index of the target block's first instruction"""
    starts = block_starts(d)
    out = []
    for b in d.blocks:
        for i in b:
            a = i.arg
            if isinstance(a, cd.Jump):
                t = starts[a.target] if 0 <= a.target < len(starts) else '?'
                s = 'J%s:%d' % (t, 1 if a.relative else 0)
            elif isinstance(a, cd.Name): s = 'n' + ser.s_str(a.name)
            elif isinstance(a, cd.Varname): s = 'v' + ser.s_str(a.varname)
            elif isinstance(a, cd.Cellvar): s = 'ce' + ser.s_str(a.cellvar)
            elif isinstance(a, cd.Freevar): s = 'fr' + ser.s_str(a.freevar)
            elif isinstance(a, cd.Constant): s = const_desc(a.constant)
            elif isinstance(a, cd.NoArg): s = 'na'
            else: s = 'r%d' % a
            out.append((dis.opmap.get(i.name, -1), s, i.line_number if lines else None))
    return out


def header(c):
    """what C05 calls the header of a code object (flags without NESTED / NOFREE)"""
    import inspect
    d = {'name': c.co_name, 'filename': c.co_filename, 'firstlineno': c.co_firstlineno, 'stacksize': c.co_stacksize,
         'freevars': c.co_freevars, 'argcount': c.co_argcount, 'kwonly': c.co_kwonlyargcount,
         'posonly': getattr(c, 'co_posonlyargcount', 0),
         'flags': c.co_flags & ~0x10 & ~0x40,
         'argnames': c.co_varnames[:c.co_argcount + c.co_kwonlyargcount + bool(c.co_flags & 4) + bool(c.co_flags & 8)],
         'doc': (c.co_consts[0] if c.co_consts and isinstance(c.co_consts[0], str) else None) if c.co_flags & 2 else None}
    return d


def first_diff(a, b):
    for k, (x, y) in enumerate(zip(a, b)):
        if x != y:
            return k, x, y
    if len(a) != len(b):
        return min(len(a), len(b)), None, None
    return None
