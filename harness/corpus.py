# 3.7-compatible.  Program corpus shared by the checks: fixed sources, special (regression /
# boundary) sources, a grammar-directed generator and a slice of the running interpreter's stdlib.
import os, sys, random, types, warnings

V = sys.version_info[:2]
REPO = os.environ.get('VERIF_REPO', '/repo')
NL = "\n"

REPO_EXAMPLES = [
    "\n", "a", "def fn(): pass", "class A: pass", "class A: pass\nclass A: pass\n",
    "x = 1" + NL * 127 + "\ny=2",
    'x = x or ' + "-x" * 100 + '\nwhile x:\n    x -= 1',
    "while not x < y < z:\n    pass",
    "y =" + ("-x" * 100) + ("\n" * 300) + "z = y",
    "f(\n1)", "f(" + "\n" * 256 + "1)",
    "def _():\n    return\n    return\n", "_ = 0j",
    "\ndef fn():\n    return\n    def i():\n        i()\n",
]


def fixed_sources():
    out = [('repo-example-%d' % i, s) for i, s in enumerate(REPO_EXAMPLES)]
    d = os.path.join(REPO, 'code_data', '_test_minimized')
    if os.path.isdir(d):
        for f in sorted(os.listdir(d)):
            if f.endswith('.py'):
                try:
                    with open(os.path.join(d, f), 'rb') as fh:
                        out.append(('repo-min-' + f, fh.read().decode('utf-8')))
                except Exception:
                    pass
    return out


def special_sources():
    """Hand-written programs aimed at the places the codec is sensitive to."""
    S = []
    add = lambda name, src: S.append(('special-' + name, src))
    # line-table boundaries in real compiler output
    for n in (126, 127, 128, 129, 253, 254, 255, 256, 381, 382):
        add('sig-gap-%d' % n, "def f(a=1," + NL * n + "b=2): pass\n")
        add('call-gap-%d' % n, "f(" + NL * n + "1)\n")
        add('stmt-gap-%d' % n, "x = 1" + NL * n + "y = 2\n")
        add('neg-gap-%d' % n, "x = (f(" + NL * n + "1) +\n g)\n")
    for n in (100, 126, 127, 128, 129, 130, 253, 254, 255, 256, 300):
        add('long-expr-%d' % n, "y =" + ("-x" * n) + "\nz = y\n")
        add('long-expr-gap-%d' % n, "y =" + ("-x" * n) + NL * 300 + "z = y\n")
    # trailing EXTENDED_ARG jump (3.10 range end) and long loops
    for n in (60, 80, 100, 125, 126, 127, 128, 129, 130, 200):
        add('while-true-%d' % n, "def f(x):\n" + "".join("    x = x + %d\n" % i for i in range(n)) + "    while True:\n        x = x + 1\n")
        add('for-long-%d' % n, "for i in y:\n" + "".join("    x = x + %d\n" % i for i in range(n)) + "else:\n    z = 1\n")
        add('while-mod-%d' % n, "x = 0\n" + "".join("x = x + %d\n" % i for i in range(n)) + "while x:\n    x = x - 1\n")
    add('nan-dup', "a = 1e999-1e999; b = 1e999-1e999\n")
    # two distinct NaN constants loaded first, second, first again (the compiler duplicates finally bodies on 3.9+,
    # loop tests on 3.10): the decoder has to keep the override the encoder needs
    add('nan-finally', "try:\n    g()\nfinally:\n    a = 1e999-1e999\n    b = 1e999-1e999\n")
    add('nan-finally-fn', "def f():\n    try:\n        return g()\n    finally:\n        a = (1e999-1e999, 1)\n        b = (1e999-1e999, 1)\n        c = -(1e999-1e999)\n")
    add('nan-while', "while x < (1e999-1e999) or y < (1e999-1e999):\n    x += 1\n")
    add('nan-reuse', "a = 1e999-1e999\nb = 1e999-1e999\nfor i in y:\n    c = (1e999-1e999) if i else (1e999-1e999)\n")
    add('nan-lambdas', "x = [lambda: 1e999-1e999, lambda: 1e999-1e999]\ntry:\n    g()\nfinally:\n    y = [lambda: 1e999-1e999, lambda: 1e999-1e999]\n")
    # one name that is both a cell and a free variable of the same code object
    add('class-cell-and-free', "class A:\n    def f(self):\n        class B:\n            x = __class__\n            def g(self):\n                return super()\n        return B\n")
    add('class-cell-and-free-2', "class A:\n    def f(self):\n        class B(__class__):\n            def g(self):\n                return super().g(), __class__\n            y = [__class__ for _ in ()]\n        return B\n")
    # equal code objects in different scopes of one line (CPython merges equal code objects only within one scope)
    add('equal-code-across-scopes', "def f():\n    return (lambda: (lambda: 0)), (lambda: 0)\n")
    add('equal-code-across-scopes-2', "d = {'lazy': lambda: (lambda: None), 'eager': lambda: None}\ne = [(lambda: (lambda: (lambda: 1))), (lambda: (lambda: 1)), (lambda: 1)]\n")
    # a cell variable that no instruction references (its only use is in dead code / an assert under -O) next to a
    # free variable that is used: the free variable's index depends on the number of cells (seeded change C01-r3)
    add('dead-closure-cell', "def outer(a, b):\n    def inner(x, y):\n        if 0:\n            g = lambda: (x, y)\n        return a, b\n    return inner\n")
    add('dead-closure-cell-assert', "def make(limit):\n    def validate(value, other):\n        assert (lambda: value)() is not None, (lambda: other)\n        return value < limit\n    return validate\n")
    add('dead-closure-cell-debug', "def make(k):\n    def f(u, v):\n        if __debug__:\n            h = lambda: u\n        while 0:\n            w = lambda: v\n        return k, v\n    return f\n")
    # a free variable no instruction references (dead reference, or only declared nonlocal) before one that is used:
    # the closure is built by the parent for every free variable, in order (seeded change C05-r3)
    add('unused-freevar', "def f():\n    a = 'first'; b = 'second'\n    def g():\n        if 0:\n            a\n        return b\n    return g()\n")
    add('unused-freevar-nonlocal', "def f():\n    a = 0; b = 5\n    def g():\n        nonlocal a\n        return b\n    return g()\n")
    add('unused-freevar-eval', "def f():\n    a = 42; b = 1\n    def g():\n        if 0:\n            a\n        return eval('a') + b\n    return g()\n")
    # code objects that CPython considers equal (same bytecode, constants, names, first line) but whose line tables
    # differ, in different scopes (3.7 compiles them as two objects; seeded changes C14-r3, C12-r3)
    add('equal-code-different-lines', "fs = [lambda: (lambda: (a, b)), lambda p: (lambda: (a,\n    b))]\n")
    add('equal-code-different-lines-2', "def o1():\n    return lambda: (lambda: [x, y])\ndef o2(q):\n    return lambda: (lambda: [x,\n\n y])\n")
    # sibling code objects on one line that agree in everything except a constant, with constants whose hashes collide
    # (hash(-1) == hash(-2), hash(0) == hash(2**61-1)) or that compare equal (1 == 1.0 == True, 0.0 == -0.0): any table
    # keyed by less than the constants' type and value merges them (seeded change C05-r4)
    TW = [('-1', '-2'), ('-1.0', '-2.0'), ('0', str(2 ** 61 - 1)), ('1', '1.0'), ('1', 'True'), ('0.0', '-0.0'),
          ('0', 'False'), ("'a'", "b'a'"), ('(1, 2)', '(1.0, 2)'), ('-1j', '-2j'), ('None', '...'), ('1e999', '314159')]
    for i, (p, q) in enumerate(TW):
        add('twin-consts-%d' % i, "f, g = (lambda s: (s, %s)), (lambda s: (s, %s))\nr = (f(0), g(0))\n" % (p, q))
    add('twin-consts-list', "sh = [lambda n: n + 1, lambda n: n + 2, lambda n: n + -1, lambda n: n + -2, lambda n: n + -1.0, lambda n: n + -2.0]\n")
    add('twin-consts-class', "class S:\n    head = lambda self: self.xs[0]; tail = lambda self: self.xs[-1]; prev = lambda self: self.xs[-2]\n")
    add('twin-consts-nested', "def make():\n    return (lambda: (lambda: -1)), (lambda: (lambda: -2)), (lambda: -1.0), (lambda: -2.0)\n")
    # falsy / odd docstrings ('' is a docstring: co_consts[0] == '' and func.__doc__ == ''), with constants that are not
    # first loaded in table order after it and with unreferenced nested code (seeded change C14-r4: `if docstring:`)
    for i, doc in enumerate(["''", "' '", "'\\n'", "'0'", "", "'\\0'", "f''", "b''", "0", "None", "..."]):
        add('odd-doc-%d-default' % i, "def f():\n    %s\n    def g(a=1): return a\n    return g\n" % doc)
        add('odd-doc-%d-dead' % i, "def f():\n    %s\n    def live(): return 2\n    return live\n    def dead(): return 3\n" % doc)
        add('odd-doc-%d-order' % i, "def f(x):\n    %s\n    if x:\n        return (lambda: 'b'), 'a'\n    return 'a', (lambda: 'c'), 5\n" % doc)
        add('odd-doc-%d-class' % i, "class C:\n    %s\n    def m(self, k=(1, 2)):\n        %s\n        return k, 1\n" % (doc, doc))
    # <=3.9: statements the compiler removes after the last instruction leave line-table rows at offset len(co_code)
    # (-> `_additional_line`, several rows -> non-empty `additional_offsets`); a 254-line gap before `class`, `break` /
    # `return` after a one-line `if` leave extra rows on instructions without an operand (-> `_line_offsets_override` on
    # POP_TOP / LOAD_BUILD_CLASS / BREAK_LOOP): fields only these layouts fill (seeded changes C08-r5, C10-r5, C12-r5, C15-r5)
    add('addline-1', "def f(a):\n    return a\n    a = 2\n")
    add('addline-2', "def f(a):\n    return a\n    a = 2\n    b = 3\n")
    add('addline-3', "def f(a):\n    return a\n    a = 2\n\n\n    b = 3\n    c = 4\n")
    add('addline-yield', "def f(a):\n    return a\n    yield 1\n    yield 2\n")
    add('addline-while-else', "def f(a):\n    while 1:\n        return a\n    else:\n        a = 1\n        b = 2\n")
    add('addline-far', "def f(a):\n    return a\n" + NL * 300 + "    a = 2\n    b = 3\n")
    add('addline-nested', "def o():\n    def f(a):\n        return a\n        a = 2\n        b = 3\n    return f\n    x = 1\n    y = 2\n")
    add('lineoffs-class254', "x = 1\n" + NL * 253 + "class C:\n    pass\n")
    add('lineoffs-class255', "x = 1" + NL * 254 + "class C:\n    pass\n")
    add('lineoffs-break', "def f(d):\n    while True:\n        if not d: break\n")
    add('lineoffs-return', "def f(c, xs):\n    for x in xs:\n        if c: g(); return\n")
    # <=3.9: the peephole pass deletes the test of `if f"a":` but keeps the empty else branch: a JUMP_FORWARD with
    # displacement 0 that is the only jump to its target (seeded change C13-r5)
    add('jf0-fn', 'def f(x):\n    if f"a":\n        x = 1\n    else:\n        pass\n    return x\n')
    add('jf0-module', 'if f"a":\n    x = 1\nelse:\n    pass\ny = 2\n')
    add('jf0-try', 'def f(x):\n    try:\n        if f"a":\n            x = 1\n        else:\n            pass\n    finally:\n        x = 2\n    return x\n')
    add('jf0-several', 'def f(a):\n    if f"a":\n        a = 1\n    else:\n        pass\n    if f"b":\n        a = 2\n    else:\n        pass\n    while a:\n        if f"c":\n            a -= 1\n        else:\n            pass\n    return a\n')
    # <=3.9: the peephole pass shrinks code after the jump widths were fixed (`a, b = b, a` -> ROT_TWO), which can leave
    # two jumps around the 255/256 boundary holding each other at two code units although one would do: a layout that is
    # consistent but not minimal (seeded change C01-r5: width overrides dropped where "implied")
    def _pad(n, ind):
        out = []
        if n % 4 == 2:
            out.append(ind + "p.q\n"); n -= 6
        return "".join(out + [ind + "p\n"] * (n // 4))
    for kind in ('while', 'try', 'for'):
        for before in range(244, 258, 2):
            for inside in range(226, 238, 2):
                if kind == 'while':
                    src = _pad(before, "") + "while c:\n    a, b = b, a\n" + _pad(inside, "    ")
                elif kind == 'try':
                    src = _pad(before, "") + "try:\n    while c:\n        a, b = b, a\n" + _pad(inside, "        ") + "except E:\n    pass\n"
                else:
                    src = _pad(before, "") + "for x in y:\n    while c:\n        a, b = b, a\n" + _pad(inside, "        ")
                add('nonminimal-%s-%d-%d' % (kind, before, inside), src)
    # int constants no C double can hold (>= 2**1024): any float(i) / math.isnan(i) on the way raises OverflowError
    # (seeded change C07-r5); also as default value, in a tuple, in a set-membership test, in a nested function
    add('huge-int', "x = %d\ny = -%d\nz = (%d, 1)\nw = x in {%d, 2}\ndef f(a=%d):\n    return a + %d\n" % (
        2 ** 1024, 10 ** 400, 2 ** 1024 - 2 ** 970, 2 ** 1024 + 1, 2 ** 2000, 10 ** 309))
    # ladders of nested ifs whose exits are consecutive one-instruction statements around the 255/256 operand
    # boundary: the jump-size fix point needs one more round per level (only normalized / hand-built data recompute it)
    for depth in (3, 4, 5):
        for extra in (0, 1):
            fns = []
            for pad in range(45, 130):
                conds = ['c%d' % i for i in range(depth + 1)]
                dels = ['d%d' % i for i in range(2, depth + 1)]
                extras = ['e%d' % i for i in range(extra)]
                lines = ['def f%d(%s):' % (pad, ', '.join(conds + dels + extras + ['a', 'b']))]
                for i, c in enumerate(conds):
                    lines.append('    ' * (i + 1) + 'if %s:' % c)
                body = '    ' * (depth + 2)
                lines += [body + 'del %s' % e for e in extras]
                lines += [body + 'a = b'] * pad
                for i in range(depth, 1, -1):
                    lines.append('    ' * (i + 1) + 'del d%d' % i)
                lines.append('        return (1, a)')
                lines.append('    return (2, b)')
                fns.append('\n'.join(lines))
            add('ladder-%d-%d' % (depth, extra), '\n'.join(fns) + '\n')
    # two statements on one line where the first one is exactly a multiple of 255 bytes long (zero-line-delta rows
    # after full (255, 0) rows on 3.7 / 3.8), and line changes right after such a span
    fns = []
    for n in list(range(120, 132)) + list(range(248, 258)) + list(range(374, 384)) + list(range(502, 512)):
        names = ', '.join('a' for _ in range(n))
        fns.append('def s%d():\n    x = [%s]; y = 1\n    return x\n' % (n, names))
        fns.append('def t%d():\n    x = [%s]\n    y = 1\n    z = [%s]\n\n\n    return x\n' % (n, names, names))
    add('span-255', '\n'.join(fns))
    add('nan-tuple', "a = (1e999-1e999, 1); b = (1e999-1e999, 1); c = -(1e999-1e999)\n")
    add('zeros', "a = 0.0; b = -0.0; c = 0; d = False; e = 0j; f = -0j; g = (0.0, -0.0); h = (-0.0, 0.0)\n")
    add('ones', "a = 1; b = 1.0; c = True; d = (1, 1.0, True); e = 1+0j\n")
    add('strbytes', "a = 'a'; b = b'a'; c = ('a', b'a'); d = ''; e = b''\n")
    add('bigint', "a = 2**53; b = 2**53-1; c = -2**53; d = -2**53+1; e = 2**70; f = -2**70; g = 2**64\n")
    add('infs', "a = 1e999; b = -1e999; c = (1e999, -1e999); d = complex(1e999, 0)\n")
    add('ellipsis', "a = ...; b = (..., None, (...,))\n")
    add('frozenset', "a = x in {1, 2.0, 'a', b'b', None, (1, 2), ...}\nb = x in {0.0, 1}\n")
    add('surrogate', "a = '\\udc80'; b = ('\\udc80x', 'ok'); c = x in {'\\ud800'}\n")
    add('surrogate-doc', "def g():\n  '\\udc80 doc'\n  return '\\udc80x'\n")
    add('surrogate-name', "def g():\n  return 1\ng.__qualname__ = 'x'\n")
    add('kwonly-star', "def f(a,b=1,*c,d,**e):\n  'doc'\n  return a, b, c, d, e\n")
    add('kwonly-star2', "def f(*args, k1, k2=2):\n  return args, k1, k2\n")
    add('kwonly-nostar', "def f(a, *, k1, k2=2, **kw):\n  return a, k1, k2, kw\n")
    add('lambdas-merged', "x = [lambda: 0, lambda: 0]\n")
    add('lambdas-args', "x = [lambda a, *b, c=1, **d: (a, b, c, d), lambda *, z: z]\n")
    add('dead-nested', "def fn():\n    return\n    def i():\n        i()\n")
    add('dead-if0', "def f():\n    if 0:\n        def g(): return 1\n        x = 'dead'\n    return 2\n")
    add('dead-while0', "def f():\n    while 0:\n        y = lambda: 5\n    return 3\n")
    add('dead-after-return', "def f():\n    return 1\n    class C: pass\n    return 'x'\n")
    add('doc-fn', "def f():\n    'doc'\n    return 1\n")
    add('doc-notfirst', "def f():\n    x = 1\n    'notdoc'\n    return 'a'\n")
    add('doc-none-str-first', "def f():\n    return 'a'\n")
    add('doc-class', "class C:\n    'cdoc'\n    def m(self):\n        'mdoc'\n        return super().m()\n")
    add('doc-bytes', "def f():\n    b'notdoc'\n    return 1\n")
    add('doc-fstring', "def f():\n    f'notdoc'\n    return 1\n")
    add('gen', "def g(n):\n    for i in range(n):\n        yield i\n")
    add('coro', "async def c(x):\n    await x\n    return 1\n")
    add('asyncgen', "async def ag(x):\n    async for i in x:\n        yield i\n    async with x as y:\n        yield y\n")
    add('comprehensions', "a = [i for i in x]; b = {i for i in x}; c = {i: i for i in x}; d = (i for i in x)\n")
    add('async-comp', "async def f(x):\n    return [i async for i in x], [await i for i in x]\n")
    add('closure', "def outer(a, b):\n    c = 1\n    def inner(d):\n        nonlocal c\n        c = a + d\n        return c\n    return inner, b\n")
    add('closure-class', "def outer():\n    x = 1\n    class C:\n        y = x\n        def m(self):\n            return __class__, x\n    return C\n")
    add('closure-deep', "def a(p):\n  def b(q):\n    def c(r):\n      def d(s):\n        return p + q + r + s\n      return d\n    return c\n  return b\n")
    add('cell-arg', "def f(a, b, c):\n    def g():\n        return c, a\n    return g\n")
    add('globals', "def f():\n    global g1, g2\n    g1 = 1\n    g2 = g1\n    return len, g2\n")
    add('try', "try:\n    x = 1\nexcept (A, B) as e:\n    y = e\nelse:\n    z = 1\nfinally:\n    w = 2\n")
    add('with', "with a as b, c as d:\n    pass\n")
    add('future-ann', "from __future__ import annotations\ndef f(a: int) -> str:\n    return a\n")
    add('future-div', "from __future__ import division, print_function, unicode_literals, absolute_import, generator_stop, with_statement\nx = 1/2\n")
    add('annotations', "x: int = 1\ndef f(a: 'A', *b: int, c: str = 's', **d) -> None: pass\n")
    add('chained-cmp', "r = a < b < c <= d != e\n")
    add('many-names', "".join("n%d = n%d\n" % (i, i + 1) for i in range(300)))
    add('many-consts', "x = [" + ",".join(str(i * 7 + 1000) for i in range(300)) + "]\ny = 123456\n")
    add('many-locals', "def f():\n" + "".join("    v%d = %d\n" % (i, i) for i in range(270)) + "    return v269 + v0\n")
    add('many-cells', "def f():\n" + "".join("    v%d = %d\n" % (i, i) for i in range(12)) + "    def g():\n        return " + "+".join("v%d" % i for i in range(12)) + "\n    return g\n")
    add('semicolon-lines', "a = 1; b = 2; c = 3\nd = 4; e = 5\n")
    add('decorators', "@d1\n@d2(1)\ndef f(): pass\n@d3\nclass C: pass\n")
    add('multiline-str', "x = '''a\nb\nc'''\ny = (1,\n 2,\n 3)\nz = f(a,\n  b=2,\n  *c)\n")
    add('nested-fn-defaults', "def f(a=(1,2), b=None, *, c=frozenset({1}), d={}):\n    def g(x=a, *y, z=b): return x\n    return g\n")
    add('star-expr', "a, *b, c = x\nf(*a, **b)\n[*a, *b]\n{**a, 'k': 1}\n")
    add('fstring', "x = f'{a!r:>{w}} {b}'\n")
    add('assert', "assert x, 'msg'\n")
    add('import', "import a.b.c as d\nfrom e import (f, g as h)\nfrom . import i\nfrom .. import *\n" if False else "import a.b.c as d\nfrom e import (f, g as h)\n")
    add('lambda-default-nl', "f = lambda a=1,\\\n b=2: a\n")
    add('empty-fn-body-doc-only', "def f():\n    'only doc'\n")
    add('class-empty-doc', "class C:\n    'doc'\n")
    if V >= (3, 8):
        add('posonly', "def f(a, b, /, c, d=1, *e, g, h=2, **i):\n    'doc'\n    return a\n")
        add('posonly2', "def f(a, /): return a\ndef g(a, /, *, b): return a\ndef h(a=1, /, **k): return k\n")
        add('walrus', "if (n := len(a)) > 10:\n    print(n)\n")
        add('flufl', "from __future__ import barry_as_FLUFL\nx = 1\n")
    else:
        add('flufl', "from __future__ import barry_as_FLUFL\nx = 1\n")
    return S


# ----------------------------------------------------------------------------------------------
# grammar-directed generator

class Gen(object):
    def __init__(self, rng):
        self.r = rng
        self.uid = 0

    def fresh(self, p='v'):
        self.uid += 1
        return '%s%d' % (p, self.uid)

    def const(self, depth=0):
        r = self.r
        k = r.randrange(22 if depth < 2 else 16)
        if k == 0: return r.choice(['0', '1', '-1', '255', '256', '65535', '65536', str(r.randrange(-10**6, 10**6))])
        if k == 1: return r.choice(['0.0', '-0.0', '1.0', '1.5', '1e999', '-1e999', '(1e999-1e999)', '1e-320', '2.5e300'])
        if k == 2: return r.choice(['True', 'False', 'None', '...'])
        if k == 3: return r.choice(['0j', '-0j', '1j', '(1+0j)', 'complex(0.0, -0.0)', '1e999j', '(1e999-1e999)*1j'])
        if k == 4: return r.choice(["'a'", "''", "'doc'", "'\\udc80'", "'\\ud800x'", "'é'", "'\\U0001f600'", "'a b'", "'\\x00'"])
        if k == 5: return r.choice(["b'a'", "b''", "b'\\xff\\x00'"])
        if k == 6: return r.choice(['2**53', '2**53-1', '-2**53', '-2**53+1', '2**64', '-2**70', '2**31', '2**31-1', '-2**31'])
        if k in (7, 8): return 'v%d' % r.randrange(8)
        if k == 9: return 'g%d' % r.randrange(6)
        if k in (16, 17): return '(' + ', '.join(self.const(depth + 1) for _ in range(r.randrange(1, 4))) + ',)'
        if k == 18: return '(x in {' + ', '.join(self.lit(depth + 1) for _ in range(r.randrange(1, 4))) + '})'
        if k == 19: return '(x in (' + ', '.join(self.lit(depth + 1) for _ in range(r.randrange(1, 4))) + ',))'
        if k == 20: return '(lambda %s: %s)' % (self.params(lam=True)[0], self.const(depth + 1))
        if k == 21: return '[%s for i%d in %s]' % (self.const(depth + 1), r.randrange(3), self.const(depth + 1))
        return str(r.randrange(100))

    def lit(self, depth=0):
        r = self.r
        k = r.randrange(9 if depth < 3 else 7)
        if k == 0: return r.choice(['0', '1', '2', str(r.randrange(1000))])
        if k == 1: return r.choice(['0.0', '-0.0', '1.0', '1e999', '2.5'])
        if k == 2: return r.choice(['True', 'False', 'None', '...'])
        if k == 3: return r.choice(["'a'", "'b'", "''", "'\\udc80'"])
        if k == 4: return r.choice(["b'a'", "b''"])
        if k == 5: return r.choice(['1j', '0j', '2**60'])
        if k == 6: return str(r.randrange(5))
        return '(' + ', '.join(self.lit(depth + 1) for _ in range(r.randrange(1, 3))) + ',)'

    def params(self, lam=False):
        """returns (text, names)"""
        r = self.r
        names = []
        parts = []
        npos = r.choice([0, 0, 1, 2, 3])
        if lam and r.random() < .7: npos = 0
        npk = r.choice([0, 1, 1, 2, 3])
        nkw = r.choice([0, 0, 1, 2, 3])
        star = r.random() < .4
        kw = r.random() < .4
        seen_default = False
        def p(n, allow_default=True):
            nonlocal seen_default
            if allow_default and (seen_default or r.random() < .3):
                seen_default = True
                return '%s=%s' % (n, self.lit())
            return n
        for i in range(npos):
            n = 'p%d' % i; names.append(n); parts.append(p(n))
        if npos and V >= (3, 8): parts.append('/')
        for i in range(npk):
            n = 'a%d' % i; names.append(n); parts.append(p(n))
        if star:
            names.append('args'); parts.append('*args')
        elif nkw:
            parts.append('*')
        for i in range(nkw):
            n = 'k%d' % i; names.append(n)
            parts.append('%s=%s' % (n, self.lit()) if r.random() < .5 else n)
        if kw:
            names.append('kw'); parts.append('**kw')
        return ', '.join(parts), names

    def expr(self, depth=0):
        r = self.r
        k = r.randrange(10)
        if depth > 2 or k < 4: return self.const(depth)
        if k == 4: return '(%s + %s)' % (self.expr(depth + 1), self.expr(depth + 1))
        if k == 5: return 'f(%s, k=%s)' % (self.expr(depth + 1), self.expr(depth + 1))
        if k == 6: return '(%s if %s else %s)' % (self.expr(depth + 1), self.expr(depth + 1), self.expr(depth + 1))
        if k == 7: return '(%s and %s or %s)' % (self.expr(depth + 1), self.expr(depth + 1), self.expr(depth + 1))
        if k == 8: return 'f(' + NL * r.choice([1, 1, 2, 126, 127, 128, 255, 256]) + self.expr(depth + 1) + ')'
        return '(%s).attr%d[%s]' % (self.expr(depth + 1), r.randrange(3), self.expr(depth + 1))

    def stmts(self, ind, depth, infn=False, inloop=False, isasync=False, gen=False):
        r = self.r
        out = []
        pad = ' ' * ind
        for _ in range(r.randrange(1, 5 if depth < 2 else 3)):
            k = r.randrange(26)
            gap = NL * r.choice([0, 0, 0, 0, 1, 2, 125, 126, 127, 128, 129, 254, 255, 256, 300]) if r.random() < .15 else ''
            out.append(gap)
            if k < 5:
                out.append('%s%s = %s\n' % (pad, 'v%d' % r.randrange(8), self.expr()))
            elif k == 5:
                out.append('%sif %s:\n' % (pad, self.expr()) + self.stmts(ind + 4, depth + 1, infn, inloop, isasync, gen)
                           + (('%selse:\n' % pad + self.stmts(ind + 4, depth + 1, infn, inloop, isasync, gen)) if r.random() < .5 else ''))
            elif k == 6:
                out.append('%swhile %s:\n' % (pad, r.choice(['v1', 'True', 'not v2 < v3 < v4', '0', self.expr()])) + self.stmts(ind + 4, depth + 1, infn, True, isasync, gen))
            elif k == 7:
                out.append('%sfor i%d in %s:\n' % (pad, r.randrange(3), self.expr()) + self.stmts(ind + 4, depth + 1, infn, True, isasync, gen))
            elif k == 8 and depth < 3:
                ptxt, names = self.params()
                kind = r.randrange(6)
                pre = 'async ' if kind in (3, 4) else ''
                body = []
                if r.random() < .4: body.append(' ' * (ind + 4) + r.choice(["'doc'\n", "'''multi\nline'''\n", "'\\udc80'\n", "b'x'\n", "''\n"]))
                if names and r.random() < .5: body.append(' ' * (ind + 4) + 'v0 = %s\n' % r.choice(names))
                body.append(self.stmts(ind + 4, depth + 1, True, False, kind in (3, 4), kind in (2, 4)))
                if kind in (2, 4): body.append(' ' * (ind + 4) + 'yield v1\n')
                if kind == 3: body.append(' ' * (ind + 4) + 'await v1\n')
                if kind == 5 and names: body.append(' ' * (ind + 4) + 'def inner(): return %s, v1\n' % names[0])
                out.append('%s%sdef fn%d(%s):\n' % (pad, pre, r.randrange(4), ptxt) + ''.join(body))
            elif k == 9 and depth < 3:
                out.append('%sclass C%d(%s):\n' % (pad, r.randrange(3), r.choice(['', 'B', 'B, metaclass=M']))
                           + (' ' * (ind + 4) + "'cdoc'\n" if r.random() < .3 else '')
                           + self.stmts(ind + 4, depth + 1, False, False, False, False))
            elif k == 10 and infn:
                out.append('%sreturn %s\n' % (pad, self.expr()) if not (gen and isasync) else '%sreturn\n' % pad)
            elif k == 11 and inloop:
                out.append('%s%s\n' % (pad, r.choice(['break', 'continue'])))
            elif k == 12:
                out.append('%stry:\n' % pad + self.stmts(ind + 4, depth + 1, infn, inloop, isasync, gen)
                           + '%sexcept E as e:\n' % pad + self.stmts(ind + 4, depth + 1, infn, inloop, isasync, gen)
                           + (('%sfinally:\n' % pad + self.stmts(ind + 4, depth + 1, infn, False, isasync, gen)) if r.random() < .4 else ''))
            elif k == 13:
                out.append('%swith %s as w:\n' % (pad, self.expr()) + self.stmts(ind + 4, depth + 1, infn, inloop, isasync, gen))
            elif k == 14:
                out.append('%sif 0:\n' % pad + self.stmts(ind + 4, depth + 1, infn, inloop, isasync, gen))
            elif k == 15 and infn:
                out.append('%sglobal g%d\n%sg%d = %s\n' % (pad, 5, pad, 5, self.expr()))
            elif k == 16:
                out.append('%sv%d = y =%s\n' % (pad, r.randrange(8), '-x' * r.choice([10, 100, 126, 127, 128, 129, 130, 200])))
            elif k == 17:
                out.append('%sv%d, *v%d = %s\n' % (pad, r.randrange(4), 4 + r.randrange(4), self.expr()))
            elif k == 18:
                out.append('%sdel v%d\n' % (pad, r.randrange(8)))
            elif k == 19:
                out.append('%sassert %s, %s\n' % (pad, self.expr(), self.expr()))
            elif k == 20 and infn and isasync:
                out.append('%sawait %s\n' % (pad, self.expr()))
            elif k == 21 and infn and gen and not isasync:
                out.append('%sv0 = yield %s\n' % (pad, self.expr()))
            elif k == 22:
                out.append('%sv%d: int = %s\n' % (pad, r.randrange(8), self.expr()) if not infn else '%sv0 += %s\n' % (pad, self.expr()))
            elif k == 23:
                out.append('%simport m%d.sub as v%d\n' % (pad, r.randrange(3), r.randrange(8)))
            elif k == 24:
                out.append('%sv%d = %s; v%d = %s\n' % (pad, r.randrange(8), self.expr(), r.randrange(8), self.expr()))
            else:
                out.append('%s%s\n' % (pad, self.expr()))
        return ''.join(out)

    def program(self):
        r = self.r
        head = ''
        if r.random() < .15:
            head = 'from __future__ import %s\n' % r.choice(['annotations', 'division', 'generator_stop', 'annotations, division'])
        if r.random() < .2:
            head = '"module doc"\n' + head if 'future' not in head else head
        return head + self.stmts(0, 0)


def generated_sources(seed, n):
    out = []
    for i in range(n):
        sub = (seed * 1000003 + i) & 0x7fffffff
        g = Gen(random.Random(sub))
        out.append(('gen-%d' % sub, g.program()))
    return out


def stdlib_files():
    lib = os.path.dirname(os.__file__)
    files = []
    for root, dirs, fs in os.walk(lib):
        if 'site-packages' in root or 'lib2to3/tests/data' in root:
            continue
        for f in fs:
            if f.endswith('.py'):
                files.append(os.path.join(root, f))
    files.sort()
    return files


def stdlib_sources(seed, n):
    """n files chosen by the seed; n=None -> all"""
    files = stdlib_files()
    if n is not None and n < len(files):
        rng = random.Random(seed ^ 0x5bd1e995)
        files = rng.sample(files, n)
        files.sort()
    out = []
    for f in files:
        try:
            with open(f, 'rb') as fh:
                out.append(('stdlib-' + os.path.relpath(f, os.path.dirname(os.__file__)), fh.read()))
        except Exception:
            pass
    return out


def compile_all(name, src, modes=('exec',), opts=(0,)):
    """yield (label, code) for each mode/optimize that compiles"""
    for mode in modes:
        for opt in opts:
            try:
                with warnings.catch_warnings():
                    warnings.simplefilter('ignore')
                    c = compile(src, '<%s>' % name, mode, dont_inherit=True, optimize=opt)
            except (SyntaxError, ValueError, OverflowError, RecursionError, MemoryError):
                continue
            yield ('%s|%s|O%d' % (name, mode, opt), c)


def all_code(c):
    yield c
    for k in c.co_consts:
        if isinstance(k, types.CodeType):
            for x in all_code(k):
                yield x


def program_stream(seed, tier, shard=0, nshards=1, want=('fixed', 'special', 'gen', 'stdlib')):
    """yield (label, src, modes, opts).  The same (seed, tier) gives the same stream on every interpreter."""
    quick = tier in ('quick', 'search')       # 'search' = the quick stream with other seeds and a somewhat larger sample
    items = []
    if 'fixed' in want:
        for n, s in fixed_sources():
            items.append((n, s, ('exec',), (0, 2) if not quick else (0,)))
    if 'special' in want:
        for n, s in special_sources():
            items.append((n, s, ('exec',), (0, 1, 2) if not quick else (0, 2)))
        for n, s in [('special-eval-1', "f(\n1) + (lambda a, *b, c=1: a)(1)"), ('special-eval-2', "x" + NL * 0 + " if y else (1e999-1e999, -0.0, 'a', b'a')"),
                     ('special-single-1', "x = 1\n"), ('special-single-2', "if x:\n    y = [i for i in z]\n\n")]:
            items.append((n, s, ('eval', 'single', 'exec'), (0, 2)))
    if 'stdlib' in want and (3, 8) <= V <= (3, 9):
        # the one stdlib module whose co_lnotab has an entry inside a multi-unit instruction (known finding of C01)
        f = os.path.join(os.path.dirname(os.__file__), 'test', 'support', '__init__.py')
        if os.path.exists(f):
            with open(f, 'rb') as fh:
                items.append(('stdlib-test/support/__init__.py', fh.read(), ('exec',), (0,)))
    if 'gen' in want:
        for n, s in generated_sources(seed, {'quick': 150, 'search': 400}.get(tier, 3000)):
            items.append((n, s, ('exec',) if quick else ('exec', 'single'), (0,) if quick else (0, 1, 2)))
    if 'stdlib' in want:
        for n, s in stdlib_sources(seed, {'quick': 40, 'search': 80}.get(tier)):
            items.append((n, s, ('exec',), (0,) if quick else (0, 2)))
    for i, it in enumerate(items):
        if i % nshards == shard:
            yield it
