# 3.7-compatible.  C05 (normalization preserves meaning) and C06 (normalization is canonical).
import sys, types, random, dis, io, json, hashlib, contextlib, traceback
import ser, corpus, oracles as O, variants
import props
from props import try_, VS, V, programs, m_decode, m_encode
from code_data import CodeData

NL = "\n"


def deep_reading(k, path='code'):
    """(digest, details): the reading of k with nested code described by its own deep reading and header"""
    def desc(x):
        if isinstance(x, types.CodeType):
            return 'kCODE:' + deep_reading(x)[0]
        return 'k' + ser.s_inner(x).replace(' ', '_')
    rd = O.reading(k, code_desc=desc)
    hd = O.header(k)
    hd['doc'] = None if hd['doc'] is None else ser.s_str(hd['doc'])
    s = repr(rd) + repr(sorted(hd.items()))
    return hashlib.sha1(s.encode()).hexdigest()[:16], (rd, hd)


def first_mismatch(a, b):
    """walk two code objects in parallel (in reading order) and say where their readings first differ"""
    ra, ha = deep_reading(a)[1]
    rb, hb = deep_reading(b)[1]
    if ha != hb:
        return {'code_name': a.co_name, 'what': 'header', 'original': {k: ha[k] for k in ha if ha[k] != hb[k]}, 'normalized': {k: hb[k] for k in hb if ha[k] != hb[k]}}
    fd = O.first_diff(ra, rb)
    if fd is None:
        return None
    k, x, y = fd
    if x is not None and y is not None and x[1].startswith('kCODE') and y[1].startswith('kCODE') and x[0] == y[0] and x[2] == y[2]:
        # descend into the nested code objects
        fa = [i for f, i in O.folded(a)][k]
        fb = [i for f, i in O.folded(b)][k]
        return first_mismatch(a.co_consts[fa.arg], b.co_consts[fb.arg])
    return {'code_name': a.co_name, 'what': 'instruction', 'index': k, 'original': x, 'normalized': y}


def c05_static(w, inp, c):
    d, e = try_(CodeData.from_code, c)
    if e is not None:
        return None
    n, e = try_(d.normalize)
    if e is not None:
        w.violation('C05:normalize-raises', inp, {'error': O.exc_str(e)})
        return None
    w.op('M', 'normalize %s' % ser.s_data(d), 'OK ' + ser.s_data(n))
    c2, e = try_(n.to_code)
    m_encode(w, n, c2, e)
    if e is not None:
        w.violation('C05:normalized-data-does-not-encode', inp, {'error': O.exc_str(e), 'tb': traceback.format_exc()[-800:]})
        return None
    w.stats['code_objects'] += sum(1 for _ in corpus.all_code(c))
    w.seen(ser.s_code(c))
    if deep_reading(c)[0] != deep_reading(c2)[0]:
        w.violation('C05:normalized-code-reads-differently', inp, first_mismatch(c, c2) or {})
    # flags: at most CO_NESTED, and CO_NOFREE only when an unused cell variable disappeared
    def walk2(a, b):
        df = a.co_flags ^ b.co_flags
        if df & ~0x50:
            w.violation('C05:flags-differ', inp, {'code_name': a.co_name, 'original': hex(a.co_flags), 'normalized': hex(b.co_flags)})
        if df & 0x40 and not (a.co_cellvars and not b.co_cellvars and not a.co_freevars):
            w.violation('C05:nofree-differs-without-unused-cell', inp, {'code_name': a.co_name})
        if set(b.co_cellvars) - set(a.co_cellvars):
            w.violation('C05:new-cell-variable', inp, {'code_name': a.co_name})
    walk2(c, c2)
    return c2


class Tracer(object):
    def __init__(self):
        self.events = []

    def __call__(self, frame, event, arg):
        if frame.f_code.co_filename.startswith('<'):
            if event in ('line', 'call', 'return', 'exception'):
                self.events.append((event, frame.f_lineno, frame.f_code.co_name))
            return self
        return None


def run_traced(code):
    g = {'__name__': '__c05__'}
    out = io.StringIO()
    tr = Tracer()
    exc = None
    old = sys.gettrace()
    try:
        with contextlib.redirect_stdout(out):
            sys.settrace(tr)
            try:
                exec(code, g)
            finally:
                sys.settrace(old)
    except BaseException as e:  # noqa
        tb = e.__traceback__
        lines = []
        while tb is not None:
            if tb.tb_frame.f_code.co_filename.startswith('<'):
                lines.append(tb.tb_lineno)
            tb = tb.tb_next
        exc = (type(e).__name__, str(e), lines)
    res = {}
    for k, v in g.items():
        if k.startswith('__') or callable(v) or isinstance(v, type):
            continue
        try:
            res[k] = repr(v)
        except Exception:
            res[k] = '<unrepr>'
    return {'stdout': out.getvalue(), 'exception': exc, 'globals': sorted(res.items()), 'trace': tr.events[:20000]}


class ExecGen(object):
    """terminating, deterministic programs"""
    def __init__(self, rng):
        self.r = rng
        self.n = 0
        self.calls = True

    def e(self, depth=0):
        r = self.r
        k = r.randrange(9)
        if depth > 2 or k < 3: return r.choice(['a', 'b', 'c', '1', '2', '3', '7', '0', '-1', 'True', 'False', '10'])
        if k == 3: return '(%s + %s)' % (self.e(depth + 1), self.e(depth + 1))
        if k == 4: return '(%s * %s)' % (self.e(depth + 1), r.choice(['2', '3', 'a']))
        if k == 5: return '(%s if %s else %s)' % (self.e(depth + 1), self.e(depth + 1), self.e(depth + 1))
        if k == 6 and self.calls: return 'f%d(%s)[%d]' % (r.randrange(3), self.e(depth + 1), r.randrange(3))
        if k == 7: return '(%s <%s %s)' % (self.e(depth + 1), NL * r.choice([0, 0, 1, 2, 130]), self.e(depth + 1))
        return 'len(str(%s))' % self.e(depth + 1)

    def block(self, ind, depth, infn=False, inloop=False):
        r = self.r
        pad = ' ' * ind
        out = []
        for _ in range(r.randrange(1, 4)):
            k = r.randrange(14)
            if r.random() < .1: out.append(NL * r.choice([1, 2, 126, 127, 128, 255, 300]))
            if k < 3: out.append('%s%s = %s\n' % (pad, r.choice('abc'), self.e()))
            elif k == 3: out.append('%sprint(%s, %s)\n' % (pad, self.e(), self.e()))
            elif k == 4 and depth < 2:
                out.append('%sfor i%d in range(%d):\n' % (pad, depth, r.randrange(0, 4)) + self.block(ind + 4, depth + 1, infn, True)
                           + ('%selse:\n%s    c = 9\n' % (pad, pad) if r.random() < .3 else ''))
            elif k == 5 and depth < 2:
                self.n += 1
                out.append('%sw%d = %d\n%swhile w%d > 0:\n%s    w%d -= 1\n' % (pad, self.n, r.randrange(0, 4), pad, self.n, pad, self.n) + self.block(ind + 4, depth + 1, infn, True))
            elif k == 6 and depth < 2:
                out.append('%sif %s:\n' % (pad, self.e()) + self.block(ind + 4, depth + 1, infn, inloop)
                           + ('%selse:\n' % pad + self.block(ind + 4, depth + 1, infn, inloop) if r.random() < .5 else ''))
            elif k == 7 and depth < 2:
                out.append('%stry:\n' % pad + self.block(ind + 4, depth + 1, infn, inloop) + '%s    a = 1 // %s\n' % (pad, r.choice(['0', '1', 'b']))
                           + '%sexcept (ZeroDivisionError, TypeError) as ex:\n%s    print("caught", type(ex).__name__)\n' % (pad, pad)
                           + ('%sfinally:\n%s    print("fin")\n' % (pad, pad) if r.random() < .5 else ''))
            elif k == 8 and inloop: out.append('%sif %s: %s\n' % (pad, self.e(), r.choice(['break', 'continue'])))
            elif k == 9 and infn: out.append('%sif %s: return %s\n' % (pad, self.e(), self.e()))
            elif k == 10: out.append('%sl = [x * 2 for x in range(3) if x != %s]\n%sprint(l)\n' % (pad, r.choice(['1', 'a']), pad))
            elif k == 11: out.append('%st = (lambda q, *r, k=%s: (q, r, k))(%s, 5)\n%sprint(t)\n' % (pad, self.e(2), self.e(2), pad))
            elif k == 12: out.append('%sprint(list(g0(%d)))\n' % (pad, r.randrange(4)))
            else: out.append('%s%s = K().m(%s)[0]\n' % (pad, r.choice('abc'), self.e()))
        return ''.join(out)

    def program(self):
        r = self.r
        head = 'a = 1; b = 2; c = 3\n'
        fns = ''
        self.calls = False          # no recursion: function bodies do not call f0..f2
        for i in range(3):
            sig = r.choice(['x', 'x, y=2', 'x, *ys', 'x, *, k=1', 'x, **kw', 'x=0, *a, k=2, **kw'])
            doc = r.choice(['', "    'doc %d'\n" % i, "    \'\'\'multi\n    line\'\'\'\n"])
            body = '    a = x\n    b = 2\n    c = 3\n' + self.block(4, 1, True, False) + '    return (a, b, c)\n'
            fns += 'def f%d(%s):\n%s%s' % (i, sig, doc, body)
        self.calls = True
        gen = 'def g0(n):\n    for i in range(n):\n        yield i * %d\n    return\n' % r.randrange(1, 4)
        cls = "class K:\n    'kdoc'\n    z = %d\n    def m(self, v):\n        def inner():\n            return v, self.z\n        return inner()\n" % r.randrange(5)
        tail = self.block(0, 0)
        end = r.choice(['', '', 'print(a, b, c)\n', 'raise ValueError("end %d" % 3)\n', 'print(undefined_name)\n', 'a = 1 / 0\n'])
        return head + fns + gen + cls + tail + end


def exec_sources(seed, n):
    out = []
    for i in range(n):
        sub = (seed * 7907 + i) & 0x7fffffff
        out.append(('exec-%d' % sub, ExecGen(random.Random(sub)).program()))
    return out


def reduce_trace(trace):
    """drop a 'line' event that repeats the previous line event of the same function"""
    last = {}
    out = []
    for ev, line, name in trace:
        if ev == 'call':
            last[name] = None
        if ev == 'line':
            if last.get(name) == line:
                continue
            last[name] = line
        out.append((ev, line, name))
    return out


def has_same_line_entry(c):
    """<=3.9: some instruction carries extra line-table entries with a non-zero delta (they start a new line
    range at the same line; normalize() drops them)"""
    d = CodeData.from_code(c)
    for x in d.all_code_data():
        for b in x.blocks:
            for i in b:
                if any(i._line_offsets_override):
                    return True
    return False


def c05_one(w, inp, c):
    c2 = c05_static(w, inp, c)
    w.stats['programs'] += 1
    if c2 is not None and inp.get('exec'):
        r1, r2 = run_traced(c), run_traced(c2)
        w.stats['executed'] += 1
        w.stats['trace_events'] += len(r1['trace'])
        for key in ('stdout', 'exception', 'globals', 'trace'):
            if r1[key] != r2[key]:
                a, b = r1[key], r2[key]
                if key == 'trace':
                    fd = O.first_diff(a, b)
                    a, b = (fd[1], fd[2]) if fd else (None, None)
                kname = 'C05:execution-differs:' + key
                if key == 'trace' and V < (3, 10) and reduce_trace(r1['trace']) == reduce_trace(r2['trace']) and has_same_line_entry(c):
                    kname = 'C05:trace-differs:same-line-entry-dropped'
                w.violation(kname, inp, {'original': repr(a)[:300], 'normalized': repr(b)[:300]})
                break
    w.sample({'label': inp['label'], 'exec': bool(inp.get('exec'))})


def run_C05(w):
    for inp, c in programs(w):
        w.guard(c05_one, w, inp, c)
    n = {'quick': 120, 'search': 200}.get(w.tier, 2500)
    items = exec_sources(w.seed, n)
    fixed_exec = ["x = 1\nprint(x)\n", "def f(a, b=1, *c, d, **e):\n    return a, b, c, d, e\nprint(f(1, 2, 3, d=4, z=5))\n",
                  "def g():\n    'doc'\n    return g.__doc__\nprint(g())\n", "import sys\nprint([i for i in range(3)])\n",
                  # free variables no instruction references (seeded change C05-r3): the closure tuple is positional
                  "def f():\n    a = 'first'; b = 'second'\n    def g():\n        if 0:\n            a\n        return b\n    return g()\nprint(f())\n",
                  "def f():\n    a = 0; b = 5\n    def g():\n        nonlocal a\n        return b\n    return g()\nprint(f())\n",
                  "def f():\n    a = 42; b = 1\n    def g():\n        if 0:\n            a\n        return eval('a') + b\n    return g()\nprint(f())\n",
                  "def f(p, q):\n    def g(x, y):\n        if 0:\n            h = lambda: (x, y)\n        return p, q, x\n    return g(1, 2)\nprint(f(3, 4))\n",
                  # sibling code objects that differ only in constants with colliding hashes / equal values (C05-r4)
                  "last, before = (lambda s: s[-1]), (lambda s: s[-2])\nprint(last('abc'), before('abc'))\n",
                  "sh = [lambda n: n + 1, lambda n: n + 2, lambda n: n + -1, lambda n: n + -2, lambda n: n * 1.0, lambda n: n * 1, lambda n: n * True]\nprint([repr(f(10)) for f in sh])\ndel sh\n",
                  "def make():\n    return (lambda: -1.0), (lambda: -2.0), (lambda: 0), (lambda: %d), (lambda: 0.0), (lambda: -0.0)\nprint([repr(f()) for f in make()])\n" % (2 ** 61 - 1)]
    items += [('exec-fixed-%d' % i, s) for i, s in enumerate(fixed_exec)]
    import os, glob
    for f in sorted(glob.glob(os.path.join(os.path.dirname(os.path.dirname(os.path.abspath(__file__))), 'corpus', 'C05', '*.py'))):
        items.insert(0, ('exec-corpus-' + os.path.basename(f), open(f).read()))
    for i, (label, src) in enumerate(items):
        if i % w.nshards != w.shard:
            continue
        for opt in (0, 2):
            inp = {'kind': 'program', 'label': label, 'src': src, 'mode': 'exec', 'opt': opt, 'exec': True}
            c, e = try_(props.compile_inp, inp)
            if e is not None:
                w.stats['exec_program_syntax_error'] += 1
                break
            w.guard(c05_one, w, inp, c)


# ------------------------------------------------------------------------------------------------
# C06

def json_rt(d):
    return CodeData.from_json_data(json.loads(json.dumps(d.to_json_data(), allow_nan=False)))


def strict(d):
    """the serialization of d, strict in every type and bit, with all NaN payloads identified (CodeData.__eq__ identifies
    NaNs; everything else has to agree exactly - `==` alone goes through constant_key and is blind to a key that merges
    two constants; seeded change C06-r4)"""
    out = []
    for tok in ser.s_data(d).split(' '):
        if len(tok) == 17 and tok[0] == 'f' and (int(tok[1:], 16) & 0x7fffffffffffffff) > 0x7ff0000000000000:
            tok = 'fNaN'
        elif len(tok) == 33 and tok[0] == 'c':
            a, b = int(tok[1:17], 16), int(tok[17:], 16)
            tok = 'c' + ('NaN' if (a & 0x7fffffffffffffff) > 0x7ff0000000000000 else tok[1:17]) + ('NaN' if (b & 0x7fffffffffffffff) > 0x7ff0000000000000 else tok[17:])
        out.append(tok)
    return ' '.join(out)


OPS = {
    'norm': lambda d: d.normalize(),
    'code': lambda d: CodeData.from_code(d.to_code()).normalize(),
    'json': lambda d: json_rt(d).normalize(),
}


def c06_one(w, inp, c):
    d, e = try_(CodeData.from_code, c)
    if e is not None:
        return
    w.stats['programs'] += 1
    w.stats['code_objects'] += sum(1 for _ in corpus.all_code(c))
    n0 = d.normalize()
    w.op('M', 'normalize %s' % ser.s_data(d), 'OK ' + ser.s_data(n0))
    w.op('M', 'normalize %s' % ser.s_data(n0), 'OK ' + ser.s_data(n0.normalize()))
    if n0.normalize() != n0 or ser.s_data(n0.normalize()) != ser.s_data(n0):
        w.violation('C06:normalize-not-idempotent', inp, {})
    # histories
    rng = random.Random(hash(inp['label']) & 0xffff ^ w.seed)
    maxlen = 4 if w.tier != 'thorough' else 7
    s0 = strict(n0)
    for _ in range(3 if w.tier != 'thorough' else 8):
        hist = [rng.choice(['norm', 'code', 'json']) for _ in range(rng.randrange(1, maxlen + 1))]
        cur = n0
        w.stats['histories'] += 1
        w.seen((inp['label'], inp['opt'], tuple(hist)))
        for k, op in enumerate(hist):
            nxt, e = try_(OPS[op], cur)
            if e is not None:
                w.violation('C06:history-step-raises:' + op, inp, {'history': hist[:k + 1], 'error': O.exc_str(e)})
                break
            if nxt != n0 or hash(nxt) != hash(n0):
                w.violation('C06:history-changes-normal-form:' + op, inp, {'history': hist[:k + 1]})
                break
            if strict(nxt) != s0:
                w.violation('C06:history-changes-normal-form-strictly:' + op, inp, {'history': hist[:k + 1]})
                break
            cur = nxt
    # serialization variants, per code object
    vrng = random.Random(rng.randrange(1 << 30))
    budget = 12 if w.tier != 'thorough' else 60
    for k in corpus.all_code(c):
        if budget <= 0:
            break
        kinds = list(variants.KINDS)
        vrng.shuffle(kinds)
        for kind in kinds[:3]:
            v = variants.variant(k, vrng, kind)
            if v is None:
                continue
            if not variants.same_reading(k, v):
                w.stats['variant_discarded_reads_differently'] += 1
                continue
            budget -= 1
            w.stats['variants'] += 1
            w.stats['variant:' + kind] += 1
            w.seen((ser.s_code(v), kind))
            dk, e1 = try_(CodeData.from_code, k)
            dv, e2 = try_(CodeData.from_code, v)
            m_decode(w, v, dv, e2)
            if e1 is not None:
                continue
            if e2 is not None:
                w.violation('C06:variant-does-not-decode', inp, {'variant': kind, 'code_name': k.co_name, 'error': O.exc_str(e2)})
                continue
            if dk.normalize() != dv.normalize():
                w.violation('C06:variants-normalize-differently:' + kind, inp, {'code_name': k.co_name, 'firstlineno': k.co_firstlineno})
            elif strict(dk.normalize()) != strict(dv.normalize()):
                w.violation('C06:variants-normalize-differently-strictly:' + kind, inp, {'code_name': k.co_name, 'firstlineno': k.co_firstlineno})
            # the variant is a compiled-looking code object too: strict round trip and faithful decode (C01/C02 on variants)
            v2, e3 = try_(dv.to_code)
            if e3 is not None or not O.strict_same(v, v2):
                w.stats['variant_roundtrip_differs'] += 1
    w.sample({'label': inp['label']})


def run_C06(w):
    for inp, c in programs(w):
        w.guard(c06_one, w, inp, c)


props.RUN['C05'] = run_C05
props.RUN['C06'] = run_C06
props.ONE['C05'] = c05_one
props.ONE['C06'] = c06_one
