# 3.7-compatible.  C07 (JSON strict / schema-valid / lossless), C08 (value semantics), C12 (purity).
import sys, types, random, json, dataclasses, copy, math, ctypes, itertools, hashlib
import ser, corpus, oracles as O
import props
from props import try_, VS, V, programs, CAN_DECODE
import code_data as cd
from code_data import CodeData, Constant, Instruction, JSON_SCHEMA

MAXI = 2 ** 53 - 1


# ---------------------------------------------------------------------------------------------
# a small independent JSON-Schema validator (the subset JSON_SCHEMA uses)

def validate(inst, schema, root, path='$'):
    """returns None if valid else a message"""
    if '$ref' in schema:
        ref = schema['$ref']
        assert ref.startswith('#/definitions/')
        r = validate(inst, root['definitions'][ref[len('#/definitions/'):]], root, path)
        if r:
            return r
    if 'anyOf' in schema:
        errs = [validate(inst, s, root, path) for s in schema['anyOf']]
        if all(errs):
            return '%s: matches none of anyOf (%s)' % (path, errs[0])
    t = schema.get('type')
    if t is not None:
        ok = {'object': isinstance(inst, dict), 'array': isinstance(inst, list), 'string': isinstance(inst, str),
              'integer': isinstance(inst, int) and not isinstance(inst, bool) or (isinstance(inst, float) and inst.is_integer()),
              'number': isinstance(inst, (int, float)) and not isinstance(inst, bool),
              'boolean': isinstance(inst, bool), 'null': inst is None}[t]
        if not ok:
            return '%s: expected %s, got %s' % (path, t, type(inst).__name__)
    if 'enum' in schema and inst not in schema['enum']:
        return '%s: %r not in enum' % (path, inst)
    if isinstance(inst, dict):
        for k in schema.get('required', []):
            if k not in inst:
                return '%s: missing required %s' % (path, k)
        for k, sub in schema.get('properties', {}).items():
            if k in inst:
                r = validate(inst[k], sub, root, path + '.' + k)
                if r:
                    return r
    if isinstance(inst, list) and 'items' in schema:
        for i, x in enumerate(inst):
            r = validate(x, schema['items'], root, '%s[%d]' % (path, i))
            if r:
                return r
    return None


def strict_json(j, path='$'):
    """plain JSON only: dict/list/str/int/float/bool/None, str keys, finite floats, |int| < 2^53, encodable strings"""
    if j is None or isinstance(j, bool):
        return None
    if isinstance(j, int):
        return None if -MAXI <= j <= MAXI else '%s: integer %d outside +-(2^53-1)' % (path, j)
    if isinstance(j, float):
        return None if math.isfinite(j) else '%s: non-finite float' % path
    if isinstance(j, str):
        try:
            j.encode('utf-8')
        except UnicodeEncodeError:
            return '%s: string with lone surrogate' % path
        return None
    if type(j) is list:
        for i, x in enumerate(j):
            r = strict_json(x, '%s[%d]' % (path, i))
            if r:
                return r
        return None
    if type(j) is dict:
        for k, v in j.items():
            if type(k) is not str:
                return '%s: non-string key %r' % (path, k)
            r = strict_json(k, path + '.<key>') or strict_json(v, path + '.' + k)
            if r:
                return r
        return None
    return '%s: %s is not a JSON type' % (path, type(j).__name__)


# ---------------------------------------------------------------------------------------------
# synthetic constants and CodeData built around them

EDGE = [None, True, False, Ellipsis, 0, 1, -1, 255, MAXI, MAXI + 1, -MAXI, -MAXI - 1, 2 ** 70, -2 ** 70, 2 ** 64,
        # ints no C double can hold (>= 2**1024: float(i), math.isnan(i), i / 1 overflow) and around the largest double
        2 ** 1023, 2 ** 1024 - 2 ** 971, 2 ** 1024 - 2 ** 970, 2 ** 1024, -(2 ** 1024), 10 ** 400, -(10 ** 400), 2 ** 4000 + 1,
        0.0, -0.0, 1.0, 1.5, 5e-324, 1.7976931348623157e308, float('inf'), float('-inf'), float('nan'), 1e16, 0.1,
        0j, complex(0.0, -0.0), complex(-0.0, 0.0), complex(float('inf'), float('nan')), 1 + 2j, complex(1e308, -1e-308),
        complex(float('nan'), 1.0), complex(float('nan'), 2.0), complex(1.0, float('nan')), complex(float('nan'), float('nan')),
        complex(float('nan'), -0.0), complex(float('nan'), 0.0), complex(-0.0, float('nan')),
        '', 'a', 'é', '\U0001f600', '\udc80', 'a\ud800b', '\x00', 'line\nbreak', '"quoted"', "it's", '\\', 'nan', 'inf',
        b'', b'a', b'\x00\xff', b'\xf0\x9f', bytes(range(256))]


def gen_const(rng, depth=0):
    k = rng.random()
    if depth < 4 and k < .18:
        return tuple(gen_const(rng, depth + 1) for _ in range(rng.randrange(0, 4)))
    if depth < 4 and k < .3:
        try:
            return frozenset(gen_const(rng, depth + 1) for _ in range(rng.randrange(0, 4)))
        except TypeError:
            return frozenset()
    if k < .9:
        return rng.choice(EDGE)
    t = rng.randrange(4)
    if t == 0: return rng.randrange(-2 ** 80, 2 ** 80)
    if t == 1: return rng.uniform(-1e30, 1e30)
    if t == 2: return ''.join(rng.choice(['a', 'é', '\udcff', '\ud83d', '\n', '0', ' ']) for _ in range(rng.randrange(0, 6)))
    return bytes(rng.randrange(256) for _ in range(rng.randrange(0, 6)))


def synth_data(rng):
    """a CodeData with generated constants in every position a constant / string can occur"""
    consts = [gen_const(rng) for _ in range(rng.randrange(1, 5))]
    strs = ['\udc80', 'f\ud800', 'plain', '', 'é']
    ins = []
    for i, c in enumerate(consts):
        ins.append(Instruction('LOAD_CONST', Constant(c, rng.choice([None, i, i + 7])), line_number=rng.choice([None, 1, 5])))
        ins.append(Instruction('POP_TOP'))
    ins.append(Instruction('LOAD_NAME', cd.Name(rng.choice(strs), rng.choice([None, 0]))))
    ins.append(Instruction('LOAD_FAST', cd.Varname(rng.choice(strs))))
    ins.append(Instruction('LOAD_DEREF', cd.Cellvar(rng.choice(strs))))
    ins.append(Instruction('LOAD_DEREF', cd.Freevar(rng.choice(strs))))
    ins.append(Instruction('NOP', cd.NoArg(rng.choice([0, 3]))))
    ins.append(Instruction('CALL_FUNCTION', rng.choice([0, 2, 2 ** 31 - 1])))
    ins.append(Instruction('JUMP_FORWARD', cd.Jump(0, True), _n_args_override=rng.choice([None, 2])))
    ins.append(Instruction('RETURN_VALUE', _line_offsets_override=rng.choice([(), (1, -1)])))
    fn = rng.choice([None, cd.Function(cd.Args(positional_only=(rng.choice(strs),), keyword_only=('k',), var_positional=rng.choice([None, '\udc80v']),
                                               var_keyword=rng.choice([None, 'kw'])), docstring=rng.choice([None, 'doc', '\udc80 doc', '']),
                                       type=rng.choice([None, 'GENERATOR', 'COROUTINE', 'ASYNC_GENERATOR']))])
    inner = None
    if rng.random() < .4:
        inner = CodeData(blocks=((Instruction('LOAD_CONST', Constant(gen_const(rng))), Instruction('RETURN_VALUE')),),
                         filename=rng.choice(strs), first_line_number=3, name='inner', stacksize=1)
        ins.insert(0, Instruction('LOAD_CONST', Constant(inner)))
    return CodeData(blocks=(tuple(ins),), filename=rng.choice(strs), first_line_number=rng.choice([1, 0, 2 ** 31 - 1]), name=rng.choice(strs),
                    stacksize=rng.randrange(5), type=fn, freevars=tuple(rng.sample(strs, rng.randrange(0, 3))),
                    future_annotations=rng.random() < .3, _nested=rng.random() < .3,
                    _additional_line=rng.choice([None, cd.AdditionalLine(7, (0, 1)), cd.AdditionalLine(9)]),
                    _additional_args=tuple(rng.choice([cd.Name('extra', 9), Constant(gen_const(rng), 12), cd.Varname('\udc80', None)]) for _ in range(rng.randrange(0, 3))))


def nan_to_token(x):
    return ser.s_data(x)


# ---------------------------------------------------------------------------------------------
# C07

def c07_hypotheses(x):
    """the hypotheses of C07_schema_valid / C07_roundtrip evaluated on a CodeData: every integer outside constants is
    JSON-safe (|i| <= 2**53 - 1) and an additional line, where present at any depth, has a line"""
    M = 2 ** 53 - 1
    ok = lambda i: i is None or -M <= i <= M
    todo, seen = [x], []
    while todo:                                  # every nested CodeData (not through __iter__: hand-built data may not iterate)
        k = todo.pop()
        seen.append(k)
        for a in [i.arg for b in k.blocks for i in b] + list(k._additional_args):
            c = getattr(a, 'constant', None)
            if isinstance(c, CodeData):
                todo.append(c)
    for k in seen:
        if not (ok(k.first_line_number) and ok(k.stacksize)):
            return False
        al = k._additional_line
        if al is not None and (al.line is None or not ok(al.line) or not all(ok(o) for o in al.additional_offsets)):
            return False
        args = [i.arg for b in k.blocks for i in b] + list(k._additional_args)
        for b in k.blocks:
            for i in b:
                if not (ok(i._n_args_override) and ok(i.line_number) and all(ok(o) for o in i._line_offsets_override)):
                    return False
        for a in args:
            if isinstance(a, int):
                if not ok(a): return False
            elif not all(ok(getattr(a, f, None)) for f in ('target', '_index_override', '_arg') if isinstance(getattr(a, f, None), int)):
                return False
    return True


def schema_mutations(j, rng):
    """a few documents one edit away from j: a key removed, an integer / boolean / array / object replaced by a value of
    another JSON type, an enum literal replaced (string payloads that the token grammar interprets are left alone)"""
    import copy
    out = []
    def paths(x, p, acc):
        if isinstance(x, dict):
            for k, v in x.items():
                acc.append((p, k)); paths(v, p + (k,), acc)
        elif isinstance(x, list):
            for i, v in enumerate(x[:4]):
                paths(v, p + (i,), acc)
        return acc
    allp = paths(j, (), [])
    for _ in range(3):
        if not allp:
            break
        p, k = rng.choice(allp)
        m = copy.deepcopy(j)
        node = m
        for step in p:
            node = node[step]
        v = node[k]
        choice = rng.randrange(3)
        if choice == 0 or k in ('string', 'bytes', 'int', 'float', 'name'):
            del node[k]
        elif isinstance(v, bool):
            node[k] = 1
        elif isinstance(v, int):
            node[k] = 'x'
        elif isinstance(v, list):
            node[k] = {}
        elif isinstance(v, dict):
            node[k] = []
        elif isinstance(v, str) and k == 'type':
            node[k] = 'NOPE'
        elif k == 'name':
            del node[k]
        else:
            node[k] = 5
        out.append(m)
    return out


def c07_data(w, inp, x, can_encode):
    w.stats['documents'] += 1
    hyp, e0 = try_(c07_hypotheses, x)
    w.stats['c07_theorem_hypotheses_hold' if hyp else 'c07_theorem_hypotheses_fail'] += 1
    j, e = try_(x.to_json_data)
    if e is not None:
        w.violation('C07:to_json_data-raises', inp, {'error': O.exc_str(e)})
        return
    w.op('M', 'tojson ' + ser.s_data(x), 'OK ' + ser.s_json(j))
    w.seen(ser.s_json(j))
    r = strict_json(j)
    if r:
        w.violation('C07:not-plain-json', inp, {'where': r})
        return
    text, e = try_(lambda: json.dumps(j, allow_nan=False))
    if e is not None:
        w.violation('C07:json.dumps-fails', inp, {'error': O.exc_str(e)})
        return
    r = validate(j, JSON_SCHEMA, JSON_SCHEMA)
    if r:
        w.violation('C07:schema-invalid', inp, {'where': r})
    # Spec tie for the schema layer: the model's executable validator (proved sound for the validity relation the
    # theorem is about) against this independent validator, on the document and on a few invalid mutations of it
    if w.stats['documents'] % 7 == 1 and len(text) < 40000:
        w.op('S', 'schemavalid ' + ser.s_json(j), 'OK ' + ('false' if r else 'true'))
        mrng = random.Random(len(text) ^ w.seed)
        for m in schema_mutations(j, mrng):
            w.stats['schema_mutations'] += 1
            w.op('S', 'schemavalid ' + ser.s_json(m), 'OK ' + ('false' if validate(m, JSON_SCHEMA, JSON_SCHEMA) else 'true'))
    j2 = json.loads(text)
    j2_tokens = ser.s_json(j2)
    y, e = try_(CodeData.from_json_data, j2)
    w.op('M', 'fromjson ' + j2_tokens, 'ERR' if e is not None or not isinstance(y, CodeData) else 'OK ' + safe_s_data(y))
    if e is not None:
        w.violation('C07:from_json_data-raises', inp, {'error': O.exc_str(e)})
        return
    if not (y == x) or not (x == y):
        w.violation('C07:json-roundtrip-not-equal', inp, {'first_difference': data_diff(x, y)})
        return
    hx, e1 = try_(hash, x)
    hy, e2 = try_(hash, y)
    if e1 is not None or e2 is not None or hx != hy:
        w.violation('C07:loaded-data-hash-differs-or-unhashable', inp, {'error': O.exc_str(e1 or e2) if (e1 or e2) else 'hash differs'})
    if can_encode and CAN_DECODE:
        a, ea = try_(x.to_code)
        b, eb = try_(y.to_code)
        if (ea is None) != (eb is None):
            w.violation('C07:to_code-differs-after-json', inp, {'original': O.exc_str(ea) if ea else 'ok', 'loaded': O.exc_str(eb) if eb else 'ok'})
        elif ea is None and canon_code(a) != canon_code(b):
            w.violation('C07:to_code-differs-after-json', inp, {'attrs': O.code_diff(a, b)[:5]})
    w.sample({'json': text[:300]})


def _canon_f(h):
    bits = int(h, 16)
    return 'NAN' if (bits >> 52) & 0x7ff == 0x7ff and bits & ((1 << 52) - 1) else h


def canon_code(c):
    """s_code with all NaNs identified"""
    out = []
    for t in ser.s_code(c).split(' '):
        if len(t) == 17 and t[0] == 'f':
            t = 'f' + _canon_f(t[1:])
        elif len(t) == 33 and t[0] == 'c':
            t = 'c' + _canon_f(t[1:17]) + _canon_f(t[17:])
        out.append(t)
    return ' '.join(out)


def safe_s_data(y):
    try:
        return ser.s_data(y)
    except Exception as e:
        return '<unserialisable: %s>' % type(e).__name__


def data_diff(x, y):
    a, b = ser.s_data(x).split(' '), safe_s_data(y).split(' ')
    k = next((i for i, (p, q) in enumerate(zip(a, b)) if p != q), min(len(a), len(b)))
    return {'at': k, 'original': ' '.join(a[max(0, k - 4):k + 4]), 'loaded': ' '.join(b[max(0, k - 4):k + 4])}


def run_C07(w):
    if CAN_DECODE:
        for inp, c in programs(w):
            d, e = try_(CodeData.from_code, c)
            if e is not None:
                continue
            w.stats['programs'] += 1
            w.guard(c07_data, w, inp, d, True)
            w.guard(c07_data, w, dict(inp, normalized=True), d.normalize(), True)
    rng = random.Random(w.seed * 101 + w.shard)
    for i in range({'quick': 1500, 'search': 2500}.get(w.tier, 40000) // w.nshards):
        sub = rng.randrange(1 << 30)
        w.guard(c07_synth, w, {'kind': 'synth', 'subseed': sub})


def c07_synth(w, inp):
    x = synth_data(random.Random(inp['subseed']))
    w.stats['synthetic'] += 1
    c07_data(w, inp, x, False)
    c07_data(w, dict(inp, normalized=True), x.normalize(), False)


# ---------------------------------------------------------------------------------------------
# C08

def pykey_partition(values):
    """CPython's own constant key (via ctypes) -> list of class ids; NaNs all identified"""
    f = ctypes.pythonapi._PyCode_ConstantKey
    f.argtypes = [ctypes.py_object]
    f.restype = ctypes.py_object
    def norm(v):
        # replace every NaN by one shared object so that identity-based NaN keys coincide
        if isinstance(v, float) and v != v: return NAN
        if isinstance(v, complex) and (v.real != v.real or v.imag != v.imag):
            return ('cnan', norm(v.real) if v.real != v.real else (v.real, str(v.real)), norm(v.imag) if v.imag != v.imag else (v.imag, str(v.imag)))
        if isinstance(v, tuple): return tuple(norm(x) for x in v)
        if isinstance(v, frozenset): return frozenset(norm(x) for x in v)
        return v
    keys = []
    for v in values:
        try:
            keys.append(f(norm(v)))
        except Exception:
            keys.append(('unkeyable', id(v)))
    return keys


NAN = float('nan')


def c08_consts(w, inp):
    rng = random.Random(inp['subseed'])
    vals = [gen_const(rng) for _ in range(6)]
    # numerically equal but CPython-distinct companions, and re-created (different identity) copies
    comp = []
    for v in vals:
        comp.append(json_copy(v))
        if v == 1 and not isinstance(v, (tuple, frozenset)): comp += [1, 1.0, True, 1 + 0j]
        if v == 0 and not isinstance(v, (tuple, frozenset)): comp += [0, 0.0, -0.0, False, 0j, complex(0.0, -0.0)]
        if isinstance(v, tuple): comp.append(tuple(json_copy(x) for x in v))
        if isinstance(v, complex) and v != v:
            # NaN in one part: the other part still distinguishes (seeded change C08-r3)
            comp += [complex(v.real, 7.0) if v.real != v.real else complex(7.0, v.imag), complex(float('nan'), float('nan')), (v, 1), (complex(float('nan'), 3.0), 1)]
    vals = vals + comp
    # containers whose items are ==-equal but of different types, at every depth: (1,) / (True,) / (1.0,), all-"simple"
    # tuples (str, bytes, int, None, Ellipsis only) included (seeded change C08-r8: a fast path that keys such tuples by
    # themselves), and the twisted twins of the generated containers
    k = rng.randrange(len(TWISTED))
    vals += (TWISTED + TWISTED)[k:k + 6] + [t for v in vals[:6] if isinstance(v, (tuple, frozenset)) for t in twist(v)][:6]
    cs = [Constant(v) for v in vals] + [Constant(v, 3) for v in vals[:3]]
    keys = pykey_partition([c.constant for c in cs])
    w.stats['constants'] += len(cs)
    for a, ka in zip(cs, keys):
        w.seen(ser.s_inner(a.constant))
        if not (a == a):
            w.violation('C08:eq-not-reflexive', inp, {'a': ser.s_inner(a.constant)})
        for b, kb in zip(cs, keys):
            w.stats['pairs'] += 1
            e1, e2 = a == b, b == a
            if e1 != e2:
                w.violation('C08:eq-not-symmetric', inp, {'a': ser.s_inner(a.constant), 'b': ser.s_inner(b.constant)})
            if e1 and hash(a) != hash(b):
                w.violation('C08:equal-but-hash-differs', inp, {'a': ser.s_inner(a.constant), 'b': ser.s_inner(b.constant)})
            if e1 and (len({a, b}) != 1 or b not in {a: 1}):
                w.violation('C08:equal-but-set-or-dict-distinguishes', inp, {'a': ser.s_inner(a.constant)})
            want = (ka == kb) and a._index_override == b._index_override
            if e1 != want:
                w.violation('C08:eq-partition-differs-from-cpython', inp, {'a': ser.s_inner(a.constant), 'b': ser.s_inner(b.constant), 'code_data_eq': e1, 'cpython_same_key': ka == kb})
            w.op('M', 'consteq %s | %s' % (ser.s_inner(a.constant), ser.s_inner(b.constant)), 'OK ' + ('T' if a.constant is b.constant or Constant(a.constant) == Constant(b.constant) else 'F'))
    for a, b, c in itertools.islice(itertools.product(cs, repeat=3), 0, 400):
        if a == b and b == c and not a == c:
            w.violation('C08:eq-not-transitive', inp, {})
    w.sample({'constants': [ser.s_inner(c.constant)[:60] for c in cs[:4]]})


TWISTED = [(1,), (True,), (1.0,), (0, 'a'), (False, 'a'), (0.0, 'a'), ((1, 2), 'k'), ((True, 2), 'k'), (0, 1), (False, True),
           (None, 1, b'x'), (None, True, b'x'), (Ellipsis, 0), (Ellipsis, False), frozenset({1}), frozenset({True}), frozenset({1.0}),
           frozenset({0, 'a'}), frozenset({False, 'a'}), (frozenset({1}), 2), (frozenset({True}), 2), ('a', (b'b', (1,))), ('a', (b'b', (True,))),
           (-1, 2 ** 70), (-1, 2 ** 70 + 0.0)]


def twist(v):
    """copies of a tuple / frozenset in which one item is replaced by an ==-equal value of another type"""
    out = []
    items = list(v)
    for i, x in enumerate(items):
        alts = []
        if isinstance(x, bool): alts = [int(x), float(x)]
        elif isinstance(x, int) and x in (0, 1): alts = [bool(x), float(x)]
        elif isinstance(x, int) and abs(x) < 2 ** 53: alts = [float(x)]
        elif isinstance(x, float) and x == x and x in (0.0, 1.0): alts = [int(x), bool(x)]
        elif isinstance(x, (tuple, frozenset)): alts = twist(x)[:1]
        for a in alts:
            y = items[:i] + [a] + items[i + 1:]
            out.append(tuple(y) if isinstance(v, tuple) else frozenset(y))
    return out


def json_copy(v):
    """an equal value with fresh identity (what a JSON round trip or a second decode produces)"""
    if isinstance(v, float): return float(repr(v)) if v == v else float('nan')
    if isinstance(v, complex): return complex(json_copy(v.real), json_copy(v.imag))
    if isinstance(v, tuple): return tuple(json_copy(x) for x in v)
    if isinstance(v, frozenset): return frozenset(json_copy(x) for x in v)
    if isinstance(v, (str, bytes)): return (v + v[:0])[:] if len(v) else type(v)()
    if isinstance(v, int) and not isinstance(v, bool): return int(str(v))
    return v


FROZEN = [cd.CodeData, cd.Instruction, cd.Jump, cd.Name, cd.Varname, cd.Constant, cd.Freevar, cd.Cellvar, cd.NoArg, cd.Args, cd.Function, cd.AdditionalLine]


def c08_frozen(w):
    sample = {cd.CodeData: CodeData(blocks=(), filename='f', first_line_number=1, name='n', stacksize=0), cd.Instruction: Instruction('NOP'), cd.Jump: cd.Jump(0),
              cd.Name: cd.Name('a'), cd.Varname: cd.Varname('a'), cd.Constant: Constant(1), cd.Freevar: cd.Freevar('a'), cd.Cellvar: cd.Cellvar('a'),
              cd.NoArg: cd.NoArg(), cd.Args: cd.Args(), cd.Function: cd.Function(), cd.AdditionalLine: cd.AdditionalLine(1)}
    for cls in FROZEN:
        obj = sample[cls]
        for f in dataclasses.fields(cls):
            w.stats['fields_checked'] += 1
            try:
                setattr(obj, f.name, getattr(obj, f.name))
                w.violation('C08:attribute-assignable', {'kind': 'frozen', 'cls': cls.__name__, 'field': f.name}, {})
            except dataclasses.FrozenInstanceError:
                pass
            except Exception as e:
                w.violation('C08:attribute-assignment-wrong-error', {'kind': 'frozen', 'cls': cls.__name__, 'field': f.name}, {'error': O.exc_str(e)})
        try:
            delattr(obj, dataclasses.fields(cls)[0].name)
            w.violation('C08:attribute-deletable', {'kind': 'frozen', 'cls': cls.__name__}, {})
        except dataclasses.FrozenInstanceError:
            pass
        except Exception:
            pass
        h, e = try_(hash, obj)
        if e is not None:
            w.violation('C08:unhashable', {'kind': 'frozen', 'cls': cls.__name__}, {'error': O.exc_str(e)})


def c08_program(w, inp, c):
    d, e = try_(CodeData.from_code, c)
    if e is not None:
        return
    w.stats['programs'] += 1
    routes = {'decode': d, 'decode2': CodeData.from_code(c)}
    j, e = try_(lambda: CodeData.from_json_data(json.loads(json.dumps(d.to_json_data()))))
    if e is None:
        routes['json'] = j
    for name, x in list(routes.items()):
        routes[name + '+norm'] = x.normalize()
    names = sorted(routes)
    for a in names:
        h, e = try_(hash, routes[a])
        if e is not None:
            w.violation('C08:unhashable', inp, {'route': a, 'error': O.exc_str(e)})
            return
    for a in names:
        for b in names:
            x, y = routes[a], routes[b]
            w.stats['pairs'] += 1
            if (x == y) != (y == x):
                w.violation('C08:eq-not-symmetric', inp, {'routes': [a, b]})
            if x == y:
                if hash(x) != hash(y) or len({x, y}) != 1:
                    w.violation('C08:equal-but-hash-differs', inp, {'routes': [a, b]})
                cx, e1 = try_(x.to_code)
                cy, e2 = try_(y.to_code)
                if e1 is None and e2 is None and canon_code(cx) != canon_code(cy):
                    w.violation('C08:equal-data-encode-differently', inp, {'routes': [a, b], 'attrs': O.code_diff(cx, cy)[:4]})
            same_norm = a.endswith('+norm') == b.endswith('+norm')
            if same_norm and not x == y:
                w.violation('C08:same-code-decodes-unequal', inp, {'routes': [a, b]})
    w.seen(ser.s_code(c))


def perturbations(d, rng):
    """values that differ from d in exactly one field somewhere (public or private)"""
    out = []
    R = dataclasses.replace
    out.append(('_nested', R(d, _nested=not d._nested)))
    out.append(('future_annotations', R(d, future_annotations=not d.future_annotations)))
    out.append(('stacksize', R(d, stacksize=d.stacksize + 1)))
    out.append(('first_line_number', R(d, first_line_number=d.first_line_number + 1)))
    out.append(('name', R(d, name=d.name + 'x')))
    out.append(('filename', R(d, filename=d.filename + 'x')))
    out.append(('freevars', R(d, freevars=d.freevars + ('zz',))))
    out.append(('_additional_line', R(d, _additional_line=cd.AdditionalLine(7) if d._additional_line is None else None)))
    out.append(('_additional_args', R(d, _additional_args=d._additional_args + (cd.Name('zz_unused', None),))))
    if isinstance(d.type, cd.Function):
        out.append(('type.docstring', R(d, type=R(d.type, docstring='other doc' if d.type.docstring != 'other doc' else None))))
        out.append(('type.type', R(d, type=R(d.type, type='GENERATOR' if d.type.type != 'GENERATOR' else None))))
    else:
        out.append(('type', R(d, type=cd.Function())))
    flat = [(bi, ii) for bi, b in enumerate(d.blocks) for ii in range(len(b))]
    for _ in range(6):
        if not flat:
            break
        bi, ii = rng.choice(flat)
        ins = d.blocks[bi][ii]
        k = rng.randrange(5)
        if k == 0: new = R(ins, line_number=(ins.line_number or 0) + 1)
        elif k == 1: new = R(ins, _n_args_override=3 if ins._n_args_override != 3 else None)
        elif k == 2: new = R(ins, _line_offsets_override=ins._line_offsets_override + (0,))
        elif k == 3 and hasattr(ins.arg, '_index_override'): new = R(ins, arg=R(ins.arg, _index_override=77 if ins.arg._index_override != 77 else None))
        elif k == 4 and isinstance(ins.arg, Constant) and not isinstance(ins.arg.constant, CodeData):
            c = ins.arg.constant
            alt = {0.0: -0.0, 1: True, True: 1}.get(c, None) if isinstance(c, (int, float)) and c == c else None
            if alt is None or (type(alt) is type(c) and repr(alt) == repr(c)):
                continue
            new = R(ins, arg=R(ins.arg, constant=alt))
        else:
            continue
        blocks = list(d.blocks)
        blk = list(blocks[bi]); blk[ii] = new; blocks[bi] = tuple(blk)
        out.append(('instruction', R(d, blocks=tuple(blocks))))
    return out


def c08_perturb(w, inp, c):
    d, e = try_(CodeData.from_code, c)
    if e is not None:
        return
    rng = random.Random(hash(inp['label']) & 0xffff ^ w.seed)
    base, e0 = try_(lambda: canon_code(d.to_code()))
    for field, y in perturbations(d, rng):
        w.stats['perturbed_pairs'] += 1
        eq = (d == y)
        w.op('M', 'dataeq %s | %s' % (ser.s_data(d), ser.s_data(y)), 'OK ' + ('T' if eq else 'F'))
        if eq != (y == d):
            w.violation('C08:eq-not-symmetric', inp, {'field': field})
        if eq:
            if hash(d) != hash(y):
                w.violation('C08:equal-but-hash-differs', inp, {'field': field})
            cy, e1 = try_(lambda: canon_code(y.to_code()))
            if e0 is None and e1 is None and cy != base:
                w.violation('C08:equal-data-encode-differently', inp, {'field': field})
            if ser.s_data(d) != ser.s_data(y):
                w.violation('C08:data-differing-in-a-field-compare-equal', inp, {'field': field})


def run_C08(w):
    if w.shard == 0:
        c08_frozen(w)
    rng = random.Random(w.seed * 211 + w.shard)
    for i in range({'quick': 400, 'search': 600}.get(w.tier, 6000) // w.nshards):
        w.guard(c08_consts, w, {'kind': 'constpairs', 'subseed': rng.randrange(1 << 30)})
    if CAN_DECODE:
        for inp, c in programs(w, want=('fixed', 'special', 'gen')):
            w.guard(c08_program, w, inp, c)
            w.guard(c08_perturb, w, inp, c)


# ---------------------------------------------------------------------------------------------
# C12

def views(x):
    """the derived public views of a CodeData that are computed on demand (Args.parameters, len(args)) for every nested
    code object: they are part of what a caller observes, and a memo behind them is shared state (seeded change C12-r4)"""
    out = []
    try:
        for k in x.all_code_data():
            if k.type is not None:
                out.append((tuple((n, kd.name) for n, kd in k.type.args.parameters.items()), len(k.type.args)))
    except Exception as e:  # noqa
        out.append(('ERR', type(e).__name__))
    return tuple(out)


def snapshot(x):
    """structure + identities of every mutable node reachable from x"""
    if isinstance(x, dict):
        return ('d', id(x), tuple((k, snapshot(v)) for k, v in x.items()))
    if isinstance(x, list):
        return ('l', id(x), tuple(snapshot(v) for v in x))
    if isinstance(x, float) and x != x:
        return ('nan', id(x))
    if isinstance(x, CodeData):
        return ('D', ser.s_data(x), views(x))
    if isinstance(x, types.CodeType):
        return ('K', id(x), ser.s_code(x))
    return ('v', type(x).__name__, repr(x))


def mutable_ids(x, acc):
    if isinstance(x, dict):
        acc.add(id(x))
        for v in x.values(): mutable_ids(v, acc)
    elif isinstance(x, list):
        acc.add(id(x))
        for v in x: mutable_ids(v, acc)
    return acc


def scramble(j, rng):
    """mutate a JSON document in place, everywhere"""
    if isinstance(j, dict):
        for k in list(j.keys()):
            scramble(j[k], rng)
            if rng.random() < .3:
                j[k] = 'MUTATED'
        j['__added__'] = 1
    elif isinstance(j, list):
        for v in j: scramble(v, rng)
        j.append('MUTATED')


def c12_one(w, inp, c):
    rng = random.Random(hash(inp['label']) & 0xffff ^ w.seed)
    d, e = try_(CodeData.from_code, c)
    if e is not None:
        return
    w.stats['programs'] += 1
    pool = {'code': c, 'data': d, 'norm': d.normalize(), 'json': d.to_json_data(), 'json_norm': d.normalize().to_json_data()}
    first = {}
    ops = {
        'from_code': ('code', lambda x: CodeData.from_code(x)),
        'to_code': ('data', lambda x: x.to_code()),
        'to_code_norm': ('norm', lambda x: x.to_code()),
        'normalize': ('data', lambda x: x.normalize()),
        'to_json': ('data', lambda x: x.to_json_data()),
        'from_json': ('json', lambda x: CodeData.from_json_data(x)),
        'from_json_norm': ('json_norm', lambda x: CodeData.from_json_data(x)),
    }
    hist = [rng.choice(sorted(ops)) for _ in range(8 if w.tier != 'thorough' else 20)] + sorted(ops) + ['from_json', 'from_json']
    returned_json = []
    for step, name in enumerate(hist):
        argname, fn = ops[name]
        arg = pool[argname]
        before = snapshot(arg)
        res, e = try_(fn, arg)
        w.stats['calls'] += 1
        after = snapshot(arg)
        if before != after:
            w.violation('C12:argument-modified:' + name, inp, {'history': hist[:step + 1]})
            pool[argname] = {'code': c, 'data': d, 'norm': d.normalize()}.get(argname) or (d.to_json_data() if argname == 'json' else d.normalize().to_json_data())
            continue
        val = ('ERR', type(e).__name__) if e is not None else snapshot_value(res)
        if name in first:
            if first[name] != val:
                w.violation('C12:repeated-call-differs:' + name, inp, {'history': hist[:step + 1], 'first': str(first[name])[:200], 'now': str(val)[:200]})
        else:
            first[name] = val
        if e is None and name == 'to_json':
            shared = mutable_ids(res, set()) & set().union(*[mutable_ids(r, set()) for r in returned_json]) if returned_json else set()
            if shared:
                w.violation('C12:returned-documents-share-mutable-state', inp, {'history': hist[:step + 1]})
            returned_json.append(res)
    # mutating a returned document affects neither the CodeData nor a later to_json_data
    j1 = d.to_json_data()
    ref = json.dumps(j1, sort_keys=True)
    sd = ser.s_data(d)
    scramble(j1, rng)
    if ser.s_data(d) != sd:
        w.violation('C12:mutating-returned-json-changes-codedata', inp, {})
    j2, e = try_(d.to_json_data)
    if e is not None or json.dumps(j2, sort_keys=True) != ref:
        w.violation('C12:mutating-returned-json-changes-later-to_json_data', inp, {})
    # mutating a returned Args.parameters mapping affects neither the CodeData nor a CodeData decoded later
    v0 = views(d)
    for k in d.all_code_data():
        if k.type is not None:
            m, e = try_(lambda: k.type.args.parameters)
            if e is None and hasattr(m, 'clear'):
                try_(m.clear)
    d3, e = try_(CodeData.from_code, c)
    if views(d) != v0 or (e is None and views(d3) != v0):
        w.violation('C12:mutating-returned-parameters-changes-codedata', inp, {})
    c12_after_failure(w, inp, c, d)
    # the heap model's prediction: from_json_data modifies no input node  (model tie on the set of modified nodes)
    if len(ref) < 20000:
        w.op('M', 'heapfromjson ' + ser.s_json(json.loads(ref)), 'OK modified=0')
    w.seen(ser.s_code(c))
    w.sample({'label': inp['label'], 'history': hist[:6]})


def broken_variants(d):
    """(label, CodeData) pairs on which to_code() must raise, at different depths of the assembling: an operand override
    that leaves a gap in its table (refused by to_tuple after every byte was assembled), an opcode name the interpreter
    does not have (KeyError in the middle), a jump to a block that does not exist (KeyError in the width loop)"""
    blocks = [list(b) for b in d.blocks]
    pos = [(bi, ii) for bi, b in enumerate(blocks) for ii in range(len(b))]
    out = []
    for bi, ii in pos[1:] + pos[:1]:
        a = blocks[bi][ii].arg
        if dataclasses.is_dataclass(a) and hasattr(a, '_index_override'):
            nb = [list(b) for b in blocks]
            nb[bi][ii] = dataclasses.replace(nb[bi][ii], arg=dataclasses.replace(a, _index_override=100000))
            out.append(('gap-override', dataclasses.replace(d, blocks=tuple(tuple(b) for b in nb))))
            break
    if pos:
        bi, ii = pos[-1]
        nb = [list(b) for b in blocks]
        nb[bi][ii] = dataclasses.replace(nb[bi][ii], name='NO_SUCH_OPCODE')
        out.append(('unknown-opcode', dataclasses.replace(d, blocks=tuple(tuple(b) for b in nb))))
        nb = [list(b) for b in blocks]
        jop = 'JUMP_ABSOLUTE' if 'JUMP_ABSOLUTE' in __import__('dis').opmap else 'JUMP_FORWARD'
        nb[bi][ii] = dataclasses.replace(nb[bi][ii], name=jop, arg=cd.Jump(target=len(blocks) + 7, relative=(jop != 'JUMP_ABSOLUTE')))
        out.append(('jump-to-missing-block', dataclasses.replace(d, blocks=tuple(tuple(b) for b in nb))))
    return out


def c12_after_failure(w, inp, c, d):
    """a call that raises must leave nothing behind: the next to_code / from_code / to_json_data on unrelated, valid
    arguments gives what it gave before (seeded change C12-r7: a scratch buffer shared between calls and cleared only
    when a call returns normally)"""
    ref_code, e = try_(lambda: ser.s_code(d.to_code()))
    if e is not None:
        return
    ref_data = ser.s_data(d)
    ref_json = json.dumps(d.to_json_data(), sort_keys=True)
    for label, bad in broken_variants(d):
        _, e = try_(bad.to_code)
        w.stats['calls'] += 1
        if e is None:
            w.stats['c12_broken_variant_did_not_raise'] += 1
            continue
        w.stats['c12_failed_calls_followed_up'] += 1
        got, e2 = try_(lambda: ser.s_code(d.to_code()))
        if e2 is not None or got != ref_code:
            w.violation('C12:to_code-after-failed-call-differs:' + label, inp,
                        {'failed_call': 'to_code() of the data with ' + label, 'raised': type(e).__name__,
                         'then': 'to_code() of the unchanged valid data', 'error': O.exc_str(e2) if e2 is not None else None})
            try_(d.to_code)   # let the state settle, so that one leak is reported once per variant
        d2, e3 = try_(CodeData.from_code, c)
        if e3 is not None or ser.s_data(d2) != ref_data or json.dumps(d.to_json_data(), sort_keys=True) != ref_json:
            w.violation('C12:decode-after-failed-call-differs:' + label, inp, {'raised': type(e).__name__})


def snapshot_value(res):
    if isinstance(res, CodeData): return ('D', ser.s_data(res), views(res))
    if isinstance(res, types.CodeType): return ('K', canon_code(res))
    if isinstance(res, dict): return ('J', json.dumps(res, sort_keys=True))
    return ('?', repr(res))


def c12_synth(w, inp):
    """from_json_data on hand-built documents (encoded strings at every position): no input node modified, repeatable"""
    x = synth_data(random.Random(inp['subseed']))
    for d in (x, x.normalize()):
        j = json.loads(json.dumps(d.to_json_data()))
        before = snapshot(j)
        r1, e1 = try_(CodeData.from_json_data, j)
        w.stats['calls'] += 1
        if snapshot(j) != before:
            w.violation('C12:argument-modified:from_json', inp, {})
            return
        r2, e2 = try_(CodeData.from_json_data, j)
        if (e1 is None) != (e2 is None) or (e1 is None and ser.s_data(r1) != ser.s_data(r2)):
            w.violation('C12:repeated-call-differs:from_json', inp, {})
        if e1 is None:
            j1, j2 = r1.to_json_data(), r1.to_json_data()
            if mutable_ids(j1, set()) & mutable_ids(j2, set()):
                w.violation('C12:returned-documents-share-mutable-state', inp, {})
        ref = json.dumps(j, sort_keys=True)
        if len(ref) < 20000:
            w.op('M', 'heapfromjson ' + ser.s_json(j), 'OK modified=0')
    w.seen(inp['subseed'])


# ---- results must not depend on which other arguments were processed before (no state shared between calls) ----
TWINS = [
    ("def f(x):\n    y = x + 1\n    return y\n", "def f(x):\n    y = x + 1\n\n    return y\n"),
    ("g = [lambda a: (a,\n b)]\n", "g = [lambda a: (a,\n\n b)]\n"),
    ("class C:\n    def m(self):\n        return (self,\n            1)\n", "class C:\n    def m(self):\n        return (self,\n\n            1)\n"),
    ("def o():\n    def i():\n        return (p,\n            q)\n    return i\n", "def o():\n    def i():\n        return (p,\n\n\n            q)\n    return i\n"),
    ("def o(z):\n    return [lambda: (z,\n 1), 2]\n", "def o(z):\n    return [lambda: (z,\n\n 1), 2]\n"),
]
_ISOLATED = r"""
import sys, hashlib
sys.path.insert(0, %r)
import ser
from code_data import CodeData
for src in %r:
    d = CodeData.from_code(compile(src, '<twin>', 'exec'))
    print(hashlib.sha1(ser.s_data(d).encode()).hexdigest())
"""


def c12_twins(w, inp):
    """A and B compile (same file name) to code whose nested code objects CPython considers equal (code equality ignores
    the line table) but which are different programs: decoding B after A, A after B, and either again after 300
    unrelated decodings must give what decoding it alone in a fresh process gives."""
    import subprocess, os, hashlib
    a_src, b_src = TWINS[inp['index']]
    dg = lambda d: hashlib.sha1(ser.s_data(d).encode()).hexdigest()
    A = compile(a_src, '<twin>', 'exec'); B = compile(b_src, '<twin>', 'exec')
    here = os.path.dirname(os.path.abspath(__file__))
    p = subprocess.run([sys.executable, '-c', _ISOLATED % (here, [b_src, a_src])], stdout=subprocess.PIPE, stderr=subprocess.PIPE,
                       universal_newlines=True, env=dict(os.environ))
    if p.returncode != 0:
        raise RuntimeError('isolated decoding failed: ' + p.stderr[-300:])
    iso_b, iso_a = p.stdout.split()
    seq = []
    seq.append(('A', dg(CodeData.from_code(A)))); seq.append(('B', dg(CodeData.from_code(B)))); seq.append(('A', dg(CodeData.from_code(A))))
    for k in range(300):   # unrelated arguments in between (evicts any bounded memo)
        CodeData.from_code(compile("def u%d(v):\n    return v + %d\n" % (k, k), '<twin>', 'exec'))
    seq.append(('B', dg(CodeData.from_code(B)))); seq.append(('A', dg(CodeData.from_code(A))))
    w.stats['calls'] += 305
    for step, (which, got) in enumerate(seq):
        if got != (iso_a if which == 'A' else iso_b):
            w.violation('C12:result-depends-on-call-history', inp,
                        {'step': step, 'argument': which, 'sequence': 'A B A <300 others> B A', 'source_A': a_src, 'source_B': b_src})
            break
    w.seen('twins-%d' % inp['index'])
    w.sample({'twins': inp['index']})


def run_C12(w):
    for inp, c in programs(w, want=('fixed', 'special', 'gen')):
        w.guard(c12_one, w, inp, c)
    rng = random.Random(w.seed * 307 + w.shard)
    for i in range({'quick': 400, 'search': 600}.get(w.tier, 8000) // w.nshards):
        w.guard(c12_synth, w, {'kind': 'synthdoc', 'subseed': rng.randrange(1 << 30)})
    for i in range(len(TWINS)):
        if i % w.nshards == w.shard:
            w.guard(c12_twins, w, {'kind': 'twins', 'index': i})


props.RUN['C07'] = run_C07
props.RUN['C08'] = run_C08
props.RUN['C12'] = run_C12
props.ONE['C07'] = lambda w, inp, c: [c07_data(w, inp, CodeData.from_code(c), True), c07_data(w, inp, CodeData.from_code(c).normalize(), True)]
props.ONE['C08'] = c08_program
props.ONE['C12'] = c12_one
props.REPLAY['twins'] = lambda w, prop, inp: c12_twins(w, inp)
props.REPLAY['synthdoc'] = lambda w, prop, inp: c12_synth(w, inp)
props.REPLAY['synth'] = lambda w, prop, inp: c07_synth(w, inp)
props.REPLAY['constpairs'] = lambda w, prop, inp: c08_consts(w, inp)
props.REPLAY['frozen'] = lambda w, prop, inp: c08_frozen(w)
