# 3.7-compatible.  Per-property input streams + direct oracles + correspondence ops.
import sys, os, json, types, dis, random, base64, dataclasses, hashlib, itertools, collections, copy, traceback
import ser, corpus, oracles as O
import code_data as cd
from code_data import CodeData

V = sys.version_info[:2]
VS = ser.V
CAN_DECODE = (3, 7) <= V <= (3, 10)


def enc_inp(inp):
    out = dict(inp)
    s = out.get('src')
    if isinstance(s, bytes):
        out['src'] = None
        out['src_b64'] = base64.b64encode(s).decode('ascii')
    return out


def dec_inp(inp):
    out = dict(inp)
    if out.get('src') is None and 'src_b64' in out:
        out['src'] = base64.b64decode(out['src_b64'])
    return out


def programs(w, want=('fixed', 'special', 'gen', 'stdlib')):
    """yield (inp, code) for every program of this shard"""
    for label, src, modes, opts in corpus.program_stream(w.seed, w.tier, w.shard, w.nshards, want):
        for lab, c in corpus.compile_all(label, src, modes, opts):
            _, mode, opt = lab.rsplit('|', 2)
            yield {'kind': 'program', 'label': label, 'src': src, 'mode': mode, 'opt': int(opt[1:])}, c


def compile_inp(inp):
    import warnings
    with warnings.catch_warnings():
        warnings.simplefilter('ignore')
        return compile(inp['src'], '<%s>' % inp['label'], inp['mode'], dont_inherit=True, optimize=inp['opt'])


def try_(f, *a):
    try:
        return f(*a), None
    except Exception as e:  # noqa
        return None, e


def m_decode(w, c, d, err):
    w.op('M', 'decode %s %s' % (VS, ser.s_code(c)), 'ERR' if err else 'OK ' + ser.s_data(d))


def m_encode(w, d, c2, err):
    w.op('M', 'encode %s %s' % (VS, ser.s_data(d)), 'ERR' if err else 'OK ' + ser.s_code(c2))


# ------------------------------------------------------------------------------------------------
# C01

FLUFL_BIT = 0x40000 if V < (3, 8) else 0x400000


def interior_lnotab_entry(c):
    """<=3.9: does co_lnotab have a line-changing entry whose address lies inside a multi-unit instruction?"""
    if O.V310:
        return False
    starts = set(f for f, _ in O.folded(c))
    addr = 0
    tab = c.co_lnotab
    for i in range(0, len(tab), 2):
        addr += tab[i]
        if tab[i + 1] != 0 and addr not in starts and addr < len(c.co_code):
            return True
    return False


def only_addresses_moved(t1, t2):
    """the two tables have the same rows except for the byte deltas (an entry moved to another address)"""
    return len(t1) == len(t2) and t1[1::2] == t2[1::2] and sum(t1[0::2]) == sum(t2[0::2])


def c01_classify(c, c2):
    """c2 = from_code(c).to_code() differs from c: find the nested objects that differ on their own and
    classify each.  returns list of (key, path, detail)"""
    out = []
    diffs = O.code_diff(c, c2)
    # group by code object path
    bypath = collections.defaultdict(list)
    for d in diffs:
        p, at = d.rsplit('.', 1)
        bypath[p].append(at)
    def get(c, path):
        cur = c
        for part in path.split('.')[1:]:
            idx = int(part[part.index('[') + 1:-1])
            cur = cur.co_consts[idx]
        return cur
    for p, ats in bypath.items():
        k = get(c, p)
        k2 = get(c2, p) if all('len' not in a for a in ats) else None
        key = 'C01:roundtrip-differs:' + ','.join(sorted(ats))
        if ats == ['co_lnotab'] and interior_lnotab_entry(k) and k2 is not None and only_addresses_moved(k.co_lnotab, k2.co_lnotab) and \
                [x[2] for x in O.reading(k)] == [x[2] for x in O.reading(k2)]:
            key = 'C01:lnotab-entry-inside-instruction'
        out.append((key, p, {'attrs': ats, 'orig': ser.s_code(k)[:2000], 'got': ser.s_code(k2)[:2000] if k2 else None}))
    return out


def c01_hypotheses(k):
    """the hypotheses of C01_code_bytes / C01_operand_tables, evaluated on a real code object: the bytecode does not end
    inside an instruction, at most three EXTENDED_ARG prefixes, instructions other than jumps in the minimal width, jump
    targets are instruction starts, distinct parameter / cell / free variable names"""
    code = k.co_code
    if len(code) % 2:
        return False
    run, arg, first = 0, 0, 0
    starts, ins = set(), []
    for i in range(0, len(code), 2):
        arg = arg << 8 | code[i + 1]
        if code[i] == dis.EXTENDED_ARG:
            run += 1
            if run > 3:
                return False
        else:
            starts.add(first); ins.append((code[i], arg, run + 1, i + 2)); run, arg, first = 0, 0, i + 2
    if run:
        return False
    mult = 2 if O.V310 else 1
    for op, a, nargs, nxt in ins:
        if op in dis.hasjabs:
            if a * mult not in starts: return False
        elif op in dis.hasjrel:
            if nxt + a * mult not in starts: return False
        elif nargs != (1 if a <= 0xff else 2 if a <= 0xffff else 3 if a <= 0xffffff else 4):
            return False
    npar = k.co_argcount + k.co_kwonlyargcount + bool(k.co_flags & 4) + bool(k.co_flags & 8)
    if npar > len(k.co_varnames) or len(set(k.co_varnames[:npar])) != npar:
        return False
    return len(set(k.co_cellvars)) == len(k.co_cellvars) and len(set(k.co_freevars)) == len(k.co_freevars)


def c01_one(w, inp, c):
    d, e = try_(CodeData.from_code, c)
    m_decode(w, c, d, e)
    w.stats['programs'] += 1
    n = sum(1 for _ in corpus.all_code(c))
    for k in corpus.all_code(c):
        w.stats['c01_theorem_hypotheses_hold' if c01_hypotheses(k) else 'c01_theorem_hypotheses_fail'] += 1
        # LevelOK of C01_full_roundtrip = the above + the line-table facts of C02 + non-empty bytecode
        w.stats['c01_levelok_hold' if (c01_hypotheses(k) and c02_hypotheses(k) and len(k.co_code) > 0) else 'c01_levelok_fail'] += 1
    w.stats['code_objects'] += n
    w.seen(ser.s_code(c))
    if e is not None:
        if isinstance(e, ValueError) and 'barry_as_FLUFL' in str(e) and any(k.co_flags & FLUFL_BIT for k in corpus.all_code(c)):
            w.violation('C01:future-flag:barry_as_FLUFL', inp, {'error': O.exc_str(e)})
        else:
            w.violation('C01:from_code-raises:' + type(e).__name__, inp, {'error': O.exc_str(e), 'tb': traceback.format_exc()[-1500:]})
        return
    c2, e = try_(d.to_code)
    m_encode(w, d, c2, e)
    if e is not None:
        w.violation('C01:to_code-raises:' + type(e).__name__, inp, {'error': O.exc_str(e), 'tb': traceback.format_exc()[-1500:]})
        return
    if not O.strict_same(c, c2):
        for key, path, detail in c01_classify(c, c2):
            detail['path'] = path
            w.violation(key, inp, detail)
    else:
        w.stats['roundtrip_exact'] += n
    w.sample({'label': inp['label'], 'mode': inp.get('mode'), 'opt': inp.get('opt'), 'code_objects': n})


def run_C01(w):
    for inp, c in programs(w):
        w.guard(c01_one, w, inp, c)
    if w.shard == 0:
        for inp, c in synthetic_codes(w):
            w.guard(c01_one, w, inp, c)


# ------------------------------------------------------------------------------------------------
# C02 + C13 (same stream, same decode)

def c02_one(w, inp, c, do02=True, do13=True):
    d, e = try_(CodeData.from_code, c)
    m_decode(w, c, d, e)
    if e is not None:
        w.stats['decode_raises'] += 1     # C01's business
        return
    # walk nested code objects in parallel with nested CodeData: compare per object
    for k in corpus.all_code(c):
        dk, e = (d, None) if k is c else try_(CodeData.from_code, k)
        if e is not None:
            continue
        w.stats['code_objects'] += 1
        rd = O.reading(k, code_desc=lambda x: ('kCODE:' + hashlib.sha1(ser.s_data(CodeData.from_code(x)).encode()).hexdigest()[:12])
                       if isinstance(x, types.CodeType) else 'k' + ser.s_inner(x).replace(' ', '_'))
        if do02:
            w.op('S', 'read %s %s' % (VS, ser.s_code(k)),
                 'OK ' + ' '.join('%d,%s,%s' % (op, a if not a.startswith('kCODE') else 'kCODE', '-' if l is None else l) for op, a, l in rd))
            vw = O.view(dk, const_desc=lambda x: ('kCODE:' + hashlib.sha1(ser.s_data(x).encode()).hexdigest()[:12]) if isinstance(x, CodeData) else 'k' + ser.s_inner(x).replace(' ', '_'))
            w.stats['instructions'] += len(rd)
            w.seen(tuple(rd))
            fd = O.first_diff(vw, rd)
            if fd is not None:
                kind = 'length' if fd[1] is None else ('opcode' if fd[1][0] != fd[2][0] else 'operand' if fd[1][1] != fd[2][1] else 'line')
                w.violation('C02:decoded-%s-differs' % kind, inp,
                            {'code_name': k.co_name, 'firstlineno': k.co_firstlineno, 'index': fd[0], 'decoded': fd[1], 'cpython': fd[2]})
        if do13:
            c13_check(w, inp, k, dk, rd)
        if do02:
            # non-vacuity of C02_from_code_reads_like_cpython on real input: do the theorem's hypotheses hold for this
            # code object?  (at most three EXTENDED_ARG prefixes, every jump target an instruction start, line table of
            # in-range rows with even address deltas, on 3.10 no 255 delta)
            w.stats['c02_theorem_hypotheses_hold' if c02_hypotheses(k) else 'c02_theorem_hypotheses_fail'] += 1
    w.stats['programs'] += 1
    w.sample({'label': inp['label'], 'instructions': len(O.folded(c))})


def c02_hypotheses(k):
    code = k.co_code
    if len(code) % 2:
        return False
    run = 0
    starts = set()
    first = 0
    for i in range(0, len(code), 2):
        if code[i] == dis.EXTENDED_ARG:
            run += 1
            if run > 3:
                return False
        else:
            starts.add(first); run = 0; first = i + 2
    if run:
        return False
    for ins in dis.get_instructions(k):
        if ins.opcode in dis.hasjabs or ins.opcode in dis.hasjrel:
            if ins.argval not in starts:
                return False
    tbl = k.co_linetable if O.V310 else k.co_lnotab
    if len(tbl) % 2:
        return False
    if O.V310:
        return all(tbl[j] % 2 == 0 and tbl[j] != 255 for j in range(0, len(tbl), 2))
    # co_lnotab: even once the 255-byte continuation rows (255, 0) are merged with the row they continue
    acc = 0
    rows = [(tbl[j], tbl[j + 1]) for j in range(0, len(tbl), 2)]
    for n, (b, l) in enumerate(rows):
        if b == 255 and l == 0 and n + 1 < len(rows) and rows[n + 1][0] != 0:
            acc += 255
            continue
        if (acc + b) % 2:
            return False
        acc = 0
    return True


def c13_check(w, inp, k, dk, rd):
    blocks = dk.blocks
    det = {'code_name': k.co_name, 'firstlineno': k.co_firstlineno}
    flat = [i for b in blocks for i in b]
    w.seen(('b', tuple(len(b) for b in blocks)))
    w.stats['blocks'] += len(blocks)
    if [dis.opmap.get(i.name) for i in flat] != [op for op, _, _ in rd]:
        w.violation('C13:blocks-do-not-partition-instructions', inp, det)
    if any(len(b) == 0 for b in blocks):
        w.violation('C13:empty-block', inp, det)
    expected = {0}
    for op, a, _ in rd:
        if a.startswith('J'):
            t = a[1:].split(':')[0]
            if t != '?':
                expected.add(int(t))
    starts = O.block_starts(dk)
    if rd and sorted(expected) != starts:
        det2 = dict(det); det2['expected_starts'] = sorted(expected)[:50]; det2['got_starts'] = starts[:50]
        w.violation('C13:block-starts-differ', inp, det2)
    for i in flat:
        if isinstance(i.arg, cd.Jump) and not (0 <= i.arg.target < len(blocks)):
            w.violation('C13:jump-target-out-of-range', inp, det)
    targeted = set(i.arg.target for i in flat if isinstance(i.arg, cd.Jump))
    for bi in range(1, len(blocks)):
        if bi not in targeted:
            w.violation('C13:untargeted-block', inp, det)
            break


def synthetic_codes(w):
    """code objects CPython would emit only for enormous sources, assembled directly (harness/variants.py):
    jumps whose operand needs two or three EXTENDED_ARG prefixes, in both directions"""
    import variants
    base = compile('None', '<synth>', 'eval')
    NOP, JF, JA = dis.opmap['NOP'], dis.opmap['JUMP_FORWARD'], dis.opmap['JUMP_ABSOLUTE']
    LC, RV = dis.opmap['LOAD_CONST'], dis.opmap['RETURN_VALUE']
    def ins(op, arg=None, target=None, rel=False, extra=0):
        return {'op': op, 'arg': arg, 'target': target, 'rel': rel, 'line': 1, 'extra': extra}
    out = []
    sizes = [70000 if O.V310 else 34000]
    if w.tier == 'thorough':
        sizes.append(140000 if O.V310 else 70000)
    for n in sizes:
        body = [ins(NOP) for _ in range(n)]
        # forward relative jump over the body, absolute jump back to instruction 1, absolute jump to the end
        prog = [ins(JF, target=n + 3, rel=True)] + body + [ins(JA, target=1), ins(JA, target=n + 3), ins(LC, 0), ins(RV)]
        c = variants.rebuild(base, prog)
        if c is not None:
            out.append(({'kind': 'synthcode', 'label': 'big-jump-%d' % n, 'n': n}, c))
    small = [ins(JF, target=3, rel=True, extra=2), ins(NOP), ins(JA, target=0, extra=3), ins(LC, 0), ins(RV)]
    c = variants.rebuild(base, small)
    if c is not None:
        out.append(({'kind': 'synthcode', 'label': 'redundant-prefixes', 'n': 0}, c))
    out.extend(twin_trees())
    return out


def twin_trees():
    """one code object whose constants hold two code objects that CPython considers equal (same bytecode, constants,
    names, first line) but whose line tables differ; from 3.8 the compiler shares such objects, so the tree is put
    together with code.replace (on 3.7 the compiler itself produces it: special-equal-code-different-lines)"""
    out = []
    if not hasattr(types.CodeType, 'replace'):
        return out
    pairs = [("def f(x):\n    y = x + 1\n    return y\n", "def f(x):\n    y = x + 1\n\n    return y\n"),
             ("def f(x):\n    return lambda: (x,\n        1)\n", "def f(x):\n    return lambda: (x,\n\n        1)\n")]
    for n, (a, b) in enumerate(pairs):
        fa = [k for k in compile(a, '<twin>', 'exec').co_consts if isinstance(k, types.CodeType)][0]
        fb = [k for k in compile(b, '<twin>', 'exec').co_consts if isinstance(k, types.CodeType)][0]
        if fa != fb:
            continue
        base = compile("x = 1\n", '<twin>', 'exec')
        inner = base.replace(co_consts=base.co_consts + (fb,), co_name='inner')
        holder = base.replace(co_consts=base.co_consts + (fa, inner, fb))
        out.append(({'kind': 'synthcode', 'label': 'twin-tree-%d' % n, 'n': 0}, holder))
    return out


def run_C02(w):
    for inp, c in programs(w):
        w.guard(c02_one, w, inp, c, True, False)
    if w.shard == 0:
        for inp, c in synthetic_codes(w):
            w.guard(c02_one, w, inp, c, True, False)


def run_C13(w):
    for inp, c in programs(w):
        w.guard(c02_one, w, inp, c, False, True)
    if w.shard == 0:
        for inp, c in synthetic_codes(w):
            w.guard(c02_one, w, inp, c, False, True)


# ------------------------------------------------------------------------------------------------
# C09: overrides only where justified; additional args exactly the unreferenced entries

def first_use_ranks(k, d):
    """per table: {index: rank} computed from CPython's disassembly; parameters and a docstring count first"""
    nparams = k.co_argcount + k.co_kwonlyargcount + bool(k.co_flags & 4) + bool(k.co_flags & 8)
    order = {'names': {}, 'varnames': dict((i, i) for i in range(nparams)), 'cells': {}, 'consts': {}}
    is_fn = (k.co_flags & 3) == 3
    if is_fn and k.co_consts and isinstance(k.co_consts[0], str):
        order['consts'][0] = 0
    for f, i in O.folded(k):
        op, arg = i.opcode, i.arg
        t = None
        if op in dis.hasname: t = 'names'
        elif op in dis.haslocal: t = 'varnames'
        elif op in dis.hasfree:
            if arg < len(k.co_cellvars): t = 'cells'
        elif op in dis.hasconst: t = 'consts'
        if t is not None and arg not in order[t]:
            order[t][arg] = len(order[t])
    return order


def entry_of(a):
    if isinstance(a, cd.Name): return 'names', a.name
    if isinstance(a, cd.Varname): return 'varnames', a.varname
    if isinstance(a, cd.Cellvar): return 'cells', a.cellvar
    if isinstance(a, cd.Constant): return 'consts', a.constant
    return None, None


def strip_override(d, table, index):
    """remove the position override from every use of one table entry (instructions and additional args)"""
    def fix(a):
        t, _ = entry_of(a)
        if t == table and a._index_override == index:
            return dataclasses.replace(a, _index_override=None)
        return a
    blocks = tuple(tuple(dataclasses.replace(i, arg=fix(i.arg)) for i in b) for b in d.blocks)
    return dataclasses.replace(d, blocks=blocks, _additional_args=tuple(fix(a) for a in d._additional_args))


def c09_code(w, inp, k, d, budget):
    det = {'code_name': k.co_name, 'firstlineno': k.co_firstlineno}
    order = first_use_ranks(k, d)
    tables = {'names': k.co_names, 'varnames': k.co_varnames, 'cells': k.co_cellvars, 'consts': k.co_consts}
    # --- additional args: exactly the unreferenced entries, in index order per table
    expect_add = []
    for t in ('names', 'varnames', 'cells', 'consts'):
        expect_add += [(t, i) for i in range(len(tables[t])) if i not in order[t]]
    got_add = []
    pos = collections.defaultdict(int)
    unref = {t: [i for i in range(len(tables[t])) if i not in order[t]] for t in tables}
    for a in d._additional_args:
        t, _ = entry_of(a)
        lst = unref[t]
        idx = lst[pos[t]] if pos[t] < len(lst) else None
        pos[t] += 1
        got_add.append((t, idx))
    if got_add != expect_add:
        w.violation('C09:additional-args-not-the-unreferenced-entries', inp, dict(det, expected=expect_add[:20], got=got_add[:20]))
        return
    # --- overrides on used entries
    seen = set()
    ncheck = 0
    orig = None
    for b in d.blocks:
        for ins in b:
            t, val = entry_of(ins.arg)
            if t is None:
                continue
            ov = ins.arg._index_override
            w.stats['operands'] += 1
            if ov is None:
                w.stats['operands_no_override'] += 1
                continue
            if (t, ov) in seen:
                continue
            seen.add((t, ov))
            w.stats['override_entries'] += 1
            rank = order[t].get(ov)
            if rank is None or rank != ov:
                w.stats['override_justified_by_rank'] += 1
                continue
            # position equals first-use rank: only justified if removing it changes / breaks the re-encoding
            if budget[0] <= 0:
                w.stats['override_recheck_skipped'] += 1
                continue
            budget[0] -= 1
            if orig is None:
                c0, e = try_(d.to_code)
                if e is not None:
                    return          # C01's business
                orig = ser.s_code(c0)
            d2 = strip_override(d, t, ov)
            c2, e = try_(d2.to_code)
            if e is None and ser.s_code(c2) == orig:
                w.violation('C09:redundant-override:' + t, inp, dict(det, table=t, index=ov, rank=rank))
            else:
                w.stats['override_justified_by_reencoding'] += 1
    for a in d._additional_args:
        if a._index_override is not None:
            w.stats['additional_override_entries'] += 1
            if budget[0] > 0:
                budget[0] -= 1
                t, _ = entry_of(a)
                if orig is None:
                    c0, e = try_(d.to_code)
                    if e is not None:
                        return
                    orig = ser.s_code(c0)
                d2 = strip_override(d, t, a._index_override)
                c2, e = try_(d2.to_code)
                if e is None and ser.s_code(c2) == orig:
                    w.violation('C09:redundant-override-on-additional-arg:' + t, inp, dict(det, table=t, index=a._index_override))


def canonical_tables(k, order):
    tables = {'names': k.co_names, 'varnames': k.co_varnames, 'cells': k.co_cellvars, 'consts': k.co_consts}
    for t in tables:
        if len(order[t]) != len(tables[t]) or any(i != r for i, r in order[t].items()):
            return False
    return True


def any_override(d):
    for b in d.blocks:
        for ins in b:
            if getattr(ins.arg, '_index_override', None) is not None:
                return True
    return any(a._index_override is not None for a in d._additional_args)


def key_collisions(k):
    from code_data._constants import constant_key
    keys = [constant_key(CodeData.from_code(x) if isinstance(x, types.CodeType) else x) for x in k.co_consts]
    return len(set(keys)) != len(keys)


def c09_one(w, inp, c):
    d, e = try_(CodeData.from_code, c)
    m_decode(w, c, d, e)
    if e is not None:
        return
    budget = [40]
    def rec(k, dk):
        w.stats['code_objects'] += 1
        c09_code(w, inp, k, dk, budget)
        order = first_use_ranks(k, dk)
        if canonical_tables(k, order):
            w.stats['canonical_code_objects'] += 1
            if any_override(dk) and not key_collisions(k):
                w.violation('C09:override-on-canonical-code', inp, {'code_name': k.co_name, 'firstlineno': k.co_firstlineno})
        for x in k.co_consts:
            if isinstance(x, types.CodeType):
                dx, e = try_(CodeData.from_code, x)
                if e is None:
                    rec(x, dx)
    rec(c, d)
    # the canonically re-encoded code objects are judged by the same rules
    c2, e = try_(lambda: d.normalize().to_code())
    if e is None:
        d2, e = try_(CodeData.from_code, c2)
        if e is None:
            m_decode(w, c2, d2, None)
            w.stats['reencoded_programs'] += 1
            rec(c2, d2)
    w.stats['programs'] += 1
    w.seen(ser.s_code(c))
    w.sample({'label': inp['label']})


def run_C09(w):
    for inp, c in programs(w):
        w.guard(c09_one, w, inp, c)


# ------------------------------------------------------------------------------------------------
# C14: iteration enumerates every nested code object

def c14_one(w, inp, c):
    d, e = try_(CodeData.from_code, c)
    if e is not None:
        return
    w.stats['programs'] += 1
    def canon(xs):
        return sorted(ser.s_data(x) for x in xs)
    # direct children, per code object
    for k in corpus.all_code(c):
        dk = d if k is c else CodeData.from_code(k)
        w.stats['code_objects'] += 1
        kids = [x for x in k.co_consts if isinstance(x, types.CodeType)]
        got, e = try_(lambda: list(dk))
        if e is not None:
            w.violation('C14:iter-raises', inp, {'error': O.exc_str(e)})
            continue
        w.op('M', 'iter %s' % ser.s_data(dk), 'OK ' + ser.s_list(ser.s_data, got))
        again, e2 = try_(lambda: list(dk))
        if e2 is not None or [ser.s_data(x) for x in again] != [ser.s_data(x) for x in got]:
            w.violation('C14:second-iteration-differs', inp, {'code_name': k.co_name, 'first': len(got), 'second': None if e2 is not None else len(again)})
        exp = [CodeData.from_code(x) for x in kids]
        w.seen((len(kids), k.co_name, k.co_firstlineno))
        if canon(got) != canon(exp):
            miss = len(exp) - len(got)
            w.violation('C14:iter-misses-nested-code' if miss > 0 else 'C14:iter-yields-extra' if miss < 0 else 'C14:iter-wrong-elements', inp,
                        {'code_name': k.co_name, 'firstlineno': k.co_firstlineno, 'expected': len(exp), 'got': len(got)})
        else:
            # "each equal to what decoding that nested code object on its own gives": equal by the library's own ==
            # (and hash), not only by my serialization - seeded change C14-r7 (NaN constants compared by value)
            for g, x in zip(sorted(got, key=ser.s_data), sorted(exp, key=ser.s_data)):
                eq, e3 = try_(lambda: (g == x) and (x == g) and hash(g) == hash(x))
                if e3 is not None or not eq:
                    w.violation('C14:iter-element-not-equal-to-standalone-decoding', inp,
                                {'code_name': k.co_name, 'firstlineno': k.co_firstlineno, 'nested': x.name,
                                 'error': O.exc_str(e3) if e3 is not None else None})
    allgot, e = try_(lambda: list(d.all_code_data()))
    if e is not None:
        w.violation('C14:all_code_data-raises', inp, {'error': O.exc_str(e)})
        return
    allexp = [CodeData.from_code(k) for k in corpus.all_code(c)]
    if not allgot or ser.s_data(allgot[0]) != ser.s_data(d):
        w.violation('C14:all_code_data-does-not-start-with-self', inp, {})
    if canon(allgot) != canon(allexp):
        w.violation('C14:all_code_data-differs-from-walk', inp, {'expected': len(allexp), 'got': len(allgot)})
    w.sample({'label': inp['label'], 'nested': len(allexp) - 1})


def run_C14(w):
    for inp, c in programs(w):
        w.guard(c14_one, w, inp, c)
    if w.shard == 0:
        for inp, c in twin_trees():
            w.guard(c14_one, w, inp, c)


RUN = {'C01': run_C01, 'C02': run_C02, 'C13': run_C13, 'C09': run_C09, 'C14': run_C14}

ONE = {'C09': c09_one, 'C14': c14_one, 'C01': c01_one, 'C02': lambda w, i, c: c02_one(w, i, c, True, False), 'C13': lambda w, i, c: c02_one(w, i, c, False, True)}


def replay(w, rec):
    inp = dec_inp(rec['input'])
    prop = rec['property']
    if inp['kind'] == 'program':
        c = compile_inp(inp)
        ONE[prop](w, inp, c)
    else:
        REPLAY[inp['kind']](w, prop, inp)


def replay_synthcode(w, prop, inp):
    for i2, c in synthetic_codes(w):
        if i2['label'] == inp['label']:
            ONE[prop](w, inp, c)


REPLAY = {'synthcode': replay_synthcode}

# further property groups register themselves in RUN / ONE / REPLAY
import p_c04  # noqa
import p_c10  # noqa
import p_c11  # noqa
import p_c05  # noqa
import p_json  # noqa
import p_c16  # noqa
import p_c15  # noqa
import p_c03  # noqa
