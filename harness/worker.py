# 3.7-compatible.  Runs under one target interpreter with PYTHONPATH=<shim>:<repo>.
#   worker.py run <prop> <tier> <seed> <shard> <nshards> <outdir>
#   worker.py replay <replay.json> <outdir>
# Writes into outdir:  ops.txt (driver input)  exp.txt (one line per result-producing op: "<M|S> <expected>")
#                      viol.jsonl (violations of the property on the implementation)  stats.json
import sys, os, json, time, collections, traceback, warnings
warnings.simplefilter('ignore')
sys.path.insert(0, os.path.dirname(os.path.abspath(__file__)))
sys.setrecursionlimit(10000)
import ser, corpus, oracles as O

VER = '%d.%d' % sys.version_info[:2]


class W(object):
    def __init__(self, prop, tier, seed, outdir, shard=0, nshards=1):
        self.prop, self.tier, self.seed, self.outdir = prop, tier, seed, outdir
        self.shard, self.nshards = shard, nshards
        os.makedirs(outdir, exist_ok=True)
        self.ops = open(os.path.join(outdir, 'ops.txt'), 'w')
        self.exp = open(os.path.join(outdir, 'exp.txt'), 'w')
        self.viol = open(os.path.join(outdir, 'viol.jsonl'), 'w')
        self.stats = collections.Counter()
        self.samples = []
        self.distinct = set()
        self.nviol = 0
        self.t0 = time.time()
        self.budget = None
        self.header_done = False

    def header(self):
        if not self.header_done and sys.version_info[:2] <= (3, 10):
            self.ops.write(ser.optable() + '\n')
            self.ops.write(ser.flagtable() + '\n')
            self.header_done = True

    def op(self, kind, line, expected, inp=None):
        """kind: 'M' model tie (expected = implementation's result), 'S' spec tie (expected = CPython's result)"""
        self.header()
        self.ops.write(line + '\n')
        self.exp.write(kind + ' ' + expected + '\n')
        self.stats['ops_' + kind] += 1
        self.stats['op:' + line.split(' ', 1)[0]] += 1

    def violation(self, key, inp, detail):
        self.nviol += 1
        self.stats['violation:' + key] += 1
        if self.stats['violation:' + key] <= 5:   # keep the first few of each key
            import props
            rec = {'property': self.prop, 'interpreter': VER, 'key': key, 'input': props.enc_inp(inp), 'detail': detail,
                   'seed': self.seed}
            self.viol.write(json.dumps(rec) + '\n')
            self.viol.flush()

    def guard(self, fn, *args):
        """run one input's oracle; an exception inside the harness is recorded, never silently lost"""
        try:
            return fn(*args)
        except (KeyboardInterrupt, SystemExit):
            raise
        except BaseException:
            self.stats['harness_errors'] += 1
            if '_harness_error' not in self.__dict__:
                self._harness_error = traceback.format_exc()[-3000:]
            return None

    def sample(self, x, cap=6):
        if len(self.samples) < cap:
            self.samples.append(x)

    def seen(self, token):
        self.distinct.add(hash(token))

    def close(self):
        self.ops.close(); self.exp.close(); self.viol.close()
        st = dict(self.stats)
        st['_distinct'] = len(self.distinct)
        st['_samples'] = self.samples
        st['_wall'] = time.time() - self.t0
        st['_interpreter'] = VER
        st['_harness_error'] = getattr(self, '_harness_error', None)
        with open(os.path.join(self.outdir, 'stats.json'), 'w') as f:
            json.dump(st, f)


def main():
    mode = sys.argv[1]
    if mode == 'run':
        prop, tier, seed, shard, nshards, outdir = sys.argv[2], sys.argv[3], int(sys.argv[4]), int(sys.argv[5]), int(sys.argv[6]), sys.argv[7]
        w = W(prop, tier, seed, outdir, shard, nshards)
        import props
        try:
            props.RUN[prop](w)
        finally:
            w.close()
    elif mode == 'replay':
        rec = json.load(open(sys.argv[2]))
        outdir = sys.argv[3]
        w = W(rec['property'], 'quick', rec.get('seed', 0), outdir)
        import props
        try:
            props.replay(w, rec)
        finally:
            w.close()
        print('REPLAY violations=%d' % w.nviol)
    else:
        raise SystemExit('bad mode')


if __name__ == '__main__':
    main()
