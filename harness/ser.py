# 3.7-compatible. Serialisation of code objects / CodeData into the driver's token grammar.
import sys, struct, dis, types, binascii
import code_data as cd

V = 'v%d%d' % sys.version_info[:2]
OPMAP = dis.opmap        # C15 replaces this with the opcode numbering of the interpreter that wrote a document

def s_str(s):
    try:
        b = s.encode('utf-8'); pre = 's'
    except UnicodeEncodeError:
        b = s.encode('utf-8', 'surrogatepass'); pre = 'S'
    return pre + binascii.hexlify(b).decode('ascii')

def fbits(x):
    return '%016x' % struct.unpack('>Q', struct.pack('>d', x))[0]

def s_inner(v):
    if v is None: return 'N'
    if v is Ellipsis: return 'E'
    if v is True: return 'T'
    if v is False: return 'F'
    t = type(v)
    if t is int: return 'i%d' % v
    if t is float: return 'f' + fbits(v)
    if t is complex: return 'c' + fbits(v.real) + fbits(v.imag)
    if t is str: return s_str(v)
    if t is bytes: return 'y' + binascii.hexlify(v).decode('ascii')
    if t is tuple: return ' '.join(['t%d' % len(v)] + [s_inner(x) for x in v])
    if t is frozenset: return ' '.join(['z%d' % len(v)] + sorted(s_inner(x) for x in v))
    raise TypeError(t)

def s_list(f, xs):
    return ' '.join(['L%d' % len(xs)] + [f(x) for x in xs])

def s_opt(f, x):
    return '-' if x is None else f(x)

def s_rconst(c):
    if isinstance(c, types.CodeType): return s_code(c)
    return s_inner(c)

def s_code(c):
    lt = c.co_linetable if sys.version_info >= (3, 10) else c.co_lnotab
    return ' '.join(['K', str(c.co_argcount), str(getattr(c, 'co_posonlyargcount', 0)), str(c.co_kwonlyargcount),
                     str(c.co_nlocals), str(c.co_stacksize), str(c.co_flags), str(c.co_firstlineno),
                     'y' + binascii.hexlify(c.co_code).decode('ascii'), 'y' + binascii.hexlify(lt).decode('ascii'),
                     s_str(c.co_filename), s_str(c.co_name), s_list(s_str, c.co_names), s_list(s_str, c.co_varnames),
                     s_list(s_str, c.co_freevars), s_list(s_str, c.co_cellvars), s_list(s_rconst, c.co_consts)])

def s_const(v):
    if isinstance(v, cd.CodeData): return s_data(v)
    return s_inner(v)

def s_arg(a):
    if isinstance(a, cd.Jump): return 'J %d %d' % (a.target, 1 if a.relative else 0)
    if isinstance(a, cd.Name): return 'n %s %s' % (s_str(a.name), s_opt(str, a._index_override))
    if isinstance(a, cd.Varname): return 'v %s %s' % (s_str(a.varname), s_opt(str, a._index_override))
    if isinstance(a, cd.Constant): return 'k %s %s' % (s_const(a.constant), s_opt(str, a._index_override))
    if isinstance(a, cd.Freevar): return 'fr %s' % s_str(a.freevar)
    if isinstance(a, cd.Cellvar): return 'ce %s %s' % (s_str(a.cellvar), s_opt(str, a._index_override))
    if isinstance(a, cd.NoArg): return 'na%d' % a._arg
    return 'r%d' % a

def s_instr(i):
    return 'I %d %s %s %s %s' % (OPMAP[i.name], s_arg(i.arg), s_opt(str, i._n_args_override),
                                 s_opt(str, i.line_number), s_list(str, i._line_offsets_override))

def s_args(a):
    return ' '.join(['A', s_list(s_str, a.positional_only), s_list(s_str, a.positional_or_keyword),
                     s_opt(s_str, a.var_positional), s_list(s_str, a.keyword_only), s_opt(s_str, a.var_keyword)])

FT = {None: '-', 'GENERATOR': 'G', 'COROUTINE': 'C', 'ASYNC_GENERATOR': 'AG'}

def s_type(t):
    if t is None: return '-'
    return ' '.join(['U', s_args(t.args), s_opt(s_str, t.docstring), FT[t.type]])

def s_addline(a):
    if a is None: return '-'
    return ' '.join(['AL', s_opt(str, a.line), s_list(str, a.additional_offsets)])

def s_data(d):
    return ' '.join(['D', s_str(d.filename), s_str(d.name), str(d.first_line_number), str(d.stacksize),
                     '1' if d._nested else '0', '1' if d.future_annotations else '0', s_type(d.type),
                     s_list(s_str, d.freevars), s_addline(d._additional_line), s_list(s_arg, d._additional_args),
                     s_list(lambda b: s_list(s_instr, b), d.blocks)])

def optable():
    out = []
    for op in range(256):
        if op == dis.EXTENDED_ARG: out.append('e')
        elif op in dis.hasjabs: out.append('a')
        elif op in dis.hasjrel: out.append('r')
        elif op in dis.hasname: out.append('n')
        elif op in dis.haslocal: out.append('l')
        elif op in dis.hasfree: out.append('f')
        elif op in dis.hasconst: out.append('c')
        elif op < dis.HAVE_ARGUMENT: out.append('0')
        else: out.append('x')
    return 'optable %s %s' % (V, ''.join(out))

def flagtable():
    from code_data._flags_data import _CodeFlag
    bits = sorted(int(f).bit_length() - 1 for f in _CodeFlag if int(f) and int(f) & (int(f) - 1) == 0)
    ann = int(_CodeFlag['annotations']).bit_length() - 1
    return 'flagtable %s %d %s' % (V, ann, ' '.join(map(str, bits)))


def all_code(c):
    """c and every code object reachable through co_consts (pre-order)."""
    yield c
    for k in c.co_consts:
        if isinstance(k, types.CodeType):
            for x in all_code(k):
                yield x


def s_json(j, key=None, ctx=None):
    """JSON document (as produced by to_json_data) in driver tokens; object keys sorted,
    frozenset members sorted, opcode names as numbers, repr()/b64 strings by their meaning.
    ctx: 'blocks' -> list of blocks, 'block' -> list of instruction objects, 'instr' -> an instruction."""
    import ast, base64
    if j is None: return 'N'
    if j is True: return 'T'
    if j is False: return 'F'
    if isinstance(j, int): return 'i%d' % j
    if isinstance(j, float): return 'f' + fbits(j)
    if isinstance(j, str):
        if key == 'string': return 'R' + s_str(ast.literal_eval(j))[1:]
        if key == 'bytes': return 'B' + binascii.hexlify(base64.b64decode(j)).decode('ascii')
        if key == 'name' and ctx == 'instr':
            return 'i%d' % OPMAP[j] if j in OPMAP else 'BADOP'
        return s_str(j)
    if isinstance(j, list):
        sub = {'blocks': 'block', 'block': 'instr'}.get(ctx)
        items = [s_json(x, None, sub) for x in j]
        if key == 'frozenset': items.sort()
        return ' '.join(['[%d' % len(j)] + items)
    if isinstance(j, dict):
        out = ['{%d' % len(j)]
        for k in sorted(j):
            if ctx == 'instr':
                sub = 'instr' if k == 'name' else None
            else:
                sub = 'blocks' if (k == 'blocks' and 'filename' in j) else None
            out += [k, s_json(j[k], k, sub)]
        return ' '.join(out)
    raise TypeError(type(j))
