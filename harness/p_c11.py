# 3.7-compatible.  C11: flags convert without loss; nothing unrepresentable is silently dropped.
import sys, types, random, dis, itertools
import ser, corpus, oracles as O
import props
from props import try_, VS, V, m_decode, m_encode
from code_data import CodeData
from code_data._flags_data import to_flags_data, from_flags_data, _CodeFlag

KNOWN = {f.name: int(f) for f in _CodeFlag if int(f) and int(f) & (int(f) - 1) == 0}
KNOWN_BITS = sorted(v.bit_length() - 1 for v in KNOWN.values())
KNOWN_MASK = sum(KNOWN.values())


def flags_input(w, inp):
    f = inp['word']
    w.stats['flag_words'] += 1
    w.seen(f)
    unknown = f & ~KNOWN_MASK
    s, e = try_(to_flags_data, f)
    if f < 0:
        # a negative word (co_flags is a C int; 3.7 accepts the sign bit) has every high bit set: it cannot be
        # represented and must raise.  The model's words are naturals: direct oracle only (seeded change C11-r4)
        w.stats['negative_flag_words'] += 1
        if e is None:
            w.violation('C11:unknown-bit-not-raised', inp, {'word': hex(f), 'unknown': hex(unknown), 'got': sorted(s)})
        return
    if e is not None:
        w.op('M', 'flags %s %d' % (VS, f), 'ERR')
        w.stats['flag_words_raise'] += 1
        if not unknown:
            w.violation('C11:known-flags-raise', inp, {'word': hex(f), 'error': O.exc_str(e)})
        return
    bits = sorted(KNOWN[n].bit_length() - 1 for n in s)
    back, e2 = try_(from_flags_data, set(s))
    w.op('M', 'flags %s %d' % (VS, f), 'OK %s %s' % (ser.s_list(str, bits), int(back) if e2 is None else 'ERR'))
    if unknown:
        w.violation('C11:unknown-bit-not-raised', inp, {'word': hex(f), 'unknown': hex(unknown), 'got': sorted(s)})
    if e2 is not None or back != f:
        w.violation('C11:flags-roundtrip-differs', inp, {'word': hex(f), 'back': None if e2 is not None else hex(back)})
    if sorted(s) != sorted(n for n, v in KNOWN.items() if f & v):
        w.violation('C11:wrong-flag-names', inp, {'word': hex(f), 'got': sorted(s)})
    w.sample({'word': hex(f), 'names': sorted(s)})


BASES = [
    ('module', "x = 1\n", None),
    ('function', "def f(a, b=1, *c, d, **e):\n    'doc'\n    return a\n", 'f'),
    ('function0', "def f():\n    return 1\n", 'f'),
    ('generator', "def f(a):\n    yield a\n", 'f'),
    ('coroutine', "async def f(a):\n    await a\n", 'f'),
    ('asyncgen', "async def f(a):\n    yield a\n", 'f'),
    ('closure', "def o(q):\n    def f(a, *, k):\n        return q, a, k\n    return f\n", 'f'),
    ('cellfn', "def f(q):\n    def g():\n        return q\n    return g\n", 'f'),
    ('class', "class C:\n    'doc'\n    x = 1\n", 'C'),
    ('lambda', "f = lambda a, *b, c=1, **d: a\n", '<lambda>'),
    ('listcomp', "x = [i for i in y]\n", '<listcomp>'),
    ('annot', "from __future__ import annotations\ndef f(a: int): return a\n", 'f'),
    ('kwonly', "def f(*, k):\n    return k\n", 'f'),
    ('varargs', "def f(*a):\n    return a\n", 'f'),
    ('varkw', "def f(**k):\n    return k\n", 'f'),
    ('one-arg', "def f(a):\n    return a\n", 'f'),
] + ([('posonly', "def f(a, /):\n    return a\n", 'f'), ('posonly2', "def f(a, b, /, c):\n    return a\n", 'f')] if V >= (3, 8) else [])


def base_code(name):
    for n, src, cname in BASES:
        if n == name:
            c = compile(src, '<c11>', 'exec', dont_inherit=True)
            if cname is None:
                return c
            for k in corpus.all_code(c):
                if k.co_name == cname:
                    return k
    raise KeyError(name)


def replace_code(c, **kw):
    """code.replace for every version; returns None when CPython itself rejects the header"""
    try:
        if V >= (3, 8):
            return c.replace(**kw)
        g = lambda a: kw.get(a, getattr(c, a))
        return types.CodeType(g('co_argcount'), g('co_kwonlyargcount'), g('co_nlocals'), g('co_stacksize'), g('co_flags'),
                              g('co_code'), g('co_consts'), g('co_names'), g('co_varnames'), g('co_filename'), g('co_name'),
                              g('co_firstlineno'), g('co_lnotab'), g('co_freevars'), g('co_cellvars'))
    except (ValueError, SystemError, TypeError, OverflowError):
        return None


def header_input(w, inp):
    c = base_code(inp['base'])
    kw = {}
    if 'flags' in inp: kw['co_flags'] = inp['flags']
    if 'xor' in inp: kw['co_flags'] = c.co_flags ^ inp['xor']
    if 'signbit' in inp: kw['co_flags'] = (c.co_flags ^ inp['signbit']) - 2 ** 31
    for a in ('co_argcount', 'co_kwonlyargcount', 'co_posonlyargcount', 'co_nlocals'):
        if a in inp and (a != 'co_posonlyargcount' or V >= (3, 8)):
            kw[a] = getattr(c, a) + inp[a]
    if 'varnames' in inp:
        kw['co_varnames'] = tuple(inp['varnames'])
        kw['co_nlocals'] = len(inp['varnames'])
    if any(isinstance(v, int) and v < 0 for a, v in kw.items() if a != 'co_flags'):
        return
    k = replace_code(c, **kw)
    if k is None:
        w.stats['rejected_by_cpython'] += 1
        return
    w.stats['altered_headers'] += 1
    w.seen(ser.s_code(k))
    d, e = try_(CodeData.from_code, k)
    if k.co_flags >= 0:
        m_decode(w, k, d, e)
    else:
        w.stats['negative_co_flags'] += 1        # 3.7 only; outside the model's domain (naturals): direct oracle only
    if e is not None:
        w.stats['from_code_raises'] += 1
        return
    w.stats['from_code_returns'] += 1
    c2, e = try_(d.to_code)
    m_encode(w, d, c2, e)
    det = {'altered': {a: (hex(v) if a == 'co_flags' else v) for a, v in kw.items()}, 'base': inp['base']}
    if e is not None:
        w.violation('C11:from_code-returned-data-that-does-not-encode', inp, dict(det, error=O.exc_str(e)))
        return
    diffs = O.code_diff(k, c2)
    if diffs:
        w.violation('C11:silently-lossy:' + ','.join(sorted(x.split('.')[-1] for x in diffs)), inp,
                    dict(det, got_flags=hex(c2.co_flags), want_flags=hex(k.co_flags)))
    w.sample(det)


def run_C11(w):
    rng = random.Random(w.seed * 31 + w.shard)
    words = []
    words += [1 << b for b in range(31)]
    words += [0, KNOWN_MASK]
    words += [KNOWN_MASK | (1 << b) for b in range(31) if not KNOWN_MASK & (1 << b)]
    if w.tier == 'thorough' and V >= (3, 9):
        # all subsets of the known flags (3.9 / 3.10 only: on 3.7 / 3.8 IntFlag's cost grows with every word it has seen)
        n = len(KNOWN_BITS)
        for i in range(1 << n):
            f = 0
            for j in range(n):
                if i >> j & 1:
                    f |= 1 << KNOWN_BITS[j]
            words.append(f)
    # enum.IntFlag on 3.7/3.8 keeps every combination it has seen and scans them all: cost grows with the number of words
    for _ in range(3000 if w.tier != 'thorough' else (20000 if V >= (3, 9) else 4000)):
        f = 0
        for b in KNOWN_BITS:
            if rng.random() < .3:
                f |= 1 << b
        if rng.random() < .3:
            f |= 1 << rng.randrange(31)
        words.append(f)
    # negative words (the sign bit of the C int) and words wider than 32 bits
    words += [-1, -2, -2 ** 31, -2 ** 31 + KNOWN_MASK, 1 << 31, 1 << 32, (1 << 40) | 3, -(1 << 40), 2 ** 63, -2 ** 63]
    for _ in range(200 if w.tier != 'thorough' else 2000):
        f = 0
        for b in KNOWN_BITS:
            if rng.random() < .3:
                f |= 1 << b
        words.append(f - 2 ** rng.choice([31, 31, 31, 32, 63]))
        words.append(f | 1 << rng.randrange(31, 70))
    for i, f in enumerate(words):
        if i % w.nshards == w.shard:
            w.guard(flags_input, w, {'kind': 'flagword', 'word': f})
    # header alterations
    inputs = []
    for name, _, _ in BASES:
        for b in range(31):
            inputs.append({'kind': 'header', 'base': name, 'xor': 1 << b})
        for _ in range(60 if w.tier == 'quick' else (600 if V >= (3, 9) else 120)):
            x = 0
            for b in KNOWN_BITS + [26, 27, 30]:
                if rng.random() < .2:
                    x |= 1 << b
            inputs.append({'kind': 'header', 'base': name, 'xor': x})
        # every way of clearing / setting the function bits and the argument flags together
        for m in range(1, 16):
            inputs.append({'kind': 'header', 'base': name, 'xor': m})
        for m in (0x20, 0x80, 0x200, 0xa0, 0x220, 0x280, 0x10, 0x40, 0x50, 0x100):
            inputs.append({'kind': 'header', 'base': name, 'xor': m})
            inputs.append({'kind': 'header', 'base': name, 'xor': m | 3})
        # the sign bit (accepted by the 3.7 constructor only)
        for m in (0, 4, 8, 0x40):
            inputs.append({'kind': 'header', 'base': name, 'signbit': m})
        for dlt in (-2, -1, 1, 2):
            inputs.append({'kind': 'header', 'base': name, 'co_nlocals': dlt})
        for a in ('co_argcount', 'co_kwonlyargcount', 'co_posonlyargcount'):
            for dlt in (-2, -1, 1, 2, 5):
                inputs.append({'kind': 'header', 'base': name, a: dlt})
                inputs.append({'kind': 'header', 'base': name, a: dlt, 'xor': rng.choice([4, 8, 12])})
        inputs.append({'kind': 'header', 'base': name, 'co_argcount': 1, 'co_kwonlyargcount': -1})
        inputs.append({'kind': 'header', 'base': name, 'co_argcount': -1, 'co_kwonlyargcount': 1})
        inputs.append({'kind': 'header', 'base': name, 'varnames': ['', 'b'], 'xor': 4})
        inputs.append({'kind': 'header', 'base': name, 'varnames': ['a', 'a', 'a'], 'xor': 12})
        inputs.append({'kind': 'header', 'base': name, 'varnames': [], 'xor': 4})
    for i, inp in enumerate(inputs):
        if i % w.nshards == w.shard:
            w.guard(header_input, w, inp)


props.RUN['C11'] = run_C11
props.REPLAY['flagword'] = lambda w, prop, inp: flags_input(w, inp)
props.REPLAY['header'] = lambda w, prop, inp: header_input(w, inp)
